// C12 - SIMD evaluation equals scalar evaluation for every size, shape and layout (E1)
//
// One unit per SIMD context, selected at compile time:
//   -DC12_CTX_SSE  -DC12_CTX_AVX  -DC12_CTX_VEC128  -DC12_CTX_VEC256  -DC12_CTX_VEC512  -DC12_CTX_SIMDE512
//   (all need -mavx2 -mfma; optional -DC12_ONLY_F32 / -DC12_ONLY_F64 restrict the unit to one element type,
//    -DC12_PART_EW (unary+binary), -DC12_PART_OUTER (outer+matmul), -DC12_PART_RED (reductions) restrict it to one op class)
//
// Case space (per context x dtype {0 float, 1 double}; lanes = bit width / element bits):
//   un    |op,dt,lay           |shape            unary ufunc  (12 ops with a SIMD implementation)
//   bin   |op,dt,layL,layR     |lshape|rshape    add/subtract/multiply/divide, same shape or 2-D broadcasting
//   outer |op,dt,layL,layR     |lshape|rshape    add/subtract/multiply .outer (nmtools has no divide.outer); left S(1..3,{1,2,3}), right: every 1-D count + S(2..3,V)
//   red   |op,dt,lay,kd        |shape|axis       add.reduce / multiply.reduce; axis "_" = None, else one axis (positive or negative
//                                                spelling); kd 0 nm::False 1 nm::True 2 run-time false 3 run-time true
//   mm    |dt,layL             |M,K,N            matmul (lhs row- or column-major; rhs column-major: the only storage the SIMD matmul accepts,
//                                                a row-major rhs is rejected by static_assert)
//   lay: 0 row-major, 1 column-major operand buffer.  1-D operands exist in layout 0 only (the two layouts coincide).
//
// Every case: operands are filled through the public apply_at with dyadic values chosen so that every sum / product is exact in the
// element type (so any association of a reduction gives the same bits); the operation is evaluated by (a) the lazy view, (b) the default
// scalar evaluator  na::fn(args)  and (c) the SIMD evaluator  na::fn(args, context); shape and EVERY element of the three are read through
// the public API and compared bit for bit (memcmp; -0.0 != +0.0) with each other and with the naive typed model of nmc_ref_c12.hpp.
// Out of bounds: while operands are built and the SIMD evaluator runs, global operator new places every allocation (operand buffers AND
// the output buffer the evaluator allocates) flush against a PROT_NONE page - run 1 flush with the page AFTER the buffer, run 2 flush with the
// page BEFORE it; a stray vector load/store faults and the runner records kind=crash.  Under ASan the allocator is left alone (ASan checks).
//
// Not instantiable, hence not in the space (compile-time rejections): reciprocal with any context (no ufunc_simd_t specialisation: incomplete
// type), divide.outer (does not exist), matmul with a row-major rhs (static_assert), integer element types are not enumerated (the unary
// evaluator static_asserts floating point).  subtract/divide .reduce are left out because "equal up to re-association" is not defined for a
// non-associative operation.
//
// Bounds.  E = {1,2,lanes-1,lanes,lanes+1,2*lanes+1}, V = {1,2,lanes,lanes+1}.
//   quick   : float only; 1-D counts 1..2*lanes+1 (un, bin, red, outer right operand, matmul K); 2-D shapes ExE (un both layouts; bin every pair
//             of {(r,c),(1,c),(r,1),(1,1)} that broadcasts to (r,c), 4 layout combinations; red); 3-D shapes VxVxV (un, same-shape bin, red);
//             red: every axis in positive and negative spelling + None, 4 keepdims forms, both layouts; outer: left S(1..2,{1,2,3}) x right
//             {counts, S(2,V)}, 4 layout combinations; matmul M,N in {1,2,lanes+1}, lhs both layouts.
//   thorough: float and double; counts 1..4*lanes+1; outer additionally left S(3,{1,2,3}) and right S(3,V) (3-d x 3-d: leading right extent <= 2;
//             3-d left x 1-D right: counts <= lanes+1, 2*lanes+1, 4*lanes+1).
//
// Non-triviality rule: a case is non-trivial iff at least one full SIMD pack is processed, i.e. the extent the evaluator vectorises has at
// least `lanes` elements: un / same-shape bin: element count >= lanes; broadcast bin: result columns >= lanes; outer: last extent of the
// right operand >= lanes; red axis=None: element count >= lanes; red over the last axis: that extent >= lanes; red over another axis:
// reduced extent >= 2 and the product of the extents after the axis >= lanes; mm: K >= lanes.  Everything else runs scalar tails only.
#if defined(C12_CTX_SSE)
#include "nmtools/array/eval/simd/x86_sse.hpp"
#define C12_CTX nmtools::array::simd::x86_SSE
#define C12_BITS 128
#define C12_NAME "x86_SSE"
#elif defined(C12_CTX_AVX)
#include "nmtools/array/eval/simd/x86_avx.hpp"
#define C12_CTX nmtools::array::simd::x86_AVX
#define C12_BITS 256
#define C12_NAME "x86_AVX"
#elif defined(C12_CTX_VEC128)
#include "nmtools/array/eval/simd/vector_128.hpp"
#define C12_CTX nmtools::array::simd::vector_128
#define C12_BITS 128
#define C12_NAME "vector_128"
#elif defined(C12_CTX_VEC256)
#include "nmtools/array/eval/simd/vector_256.hpp"
#define C12_CTX nmtools::array::simd::vector_256
#define C12_BITS 256
#define C12_NAME "vector_256"
#elif defined(C12_CTX_VEC512)
#include "nmtools/array/eval/simd/vector_512.hpp"
#define C12_CTX nmtools::array::simd::vector_512
#define C12_BITS 512
#define C12_NAME "vector_512"
#elif defined(C12_CTX_SIMDE512)
#include "nmtools/array/eval/simd/simde_avx512.hpp"
#define C12_CTX nmtools::array::simd::simde_AVX512
#define C12_BITS 512
#define C12_NAME "simde_AVX512"
// not instantiable with this context (compile-time rejections, so not part of the space):
//  - softshrink / hardshrink / hardswish: simde_avx512/ufunc.hpp uses simde_kxor_mask16/simde_knot_mask16/..., which SIMDe 0.7.4 (/usr/include/simde) does not provide
//  - matmul<double>: simd_op.hpp:305 calls simde_mm512_fmadd_ps on __m512d operands (does not compile)
#define C12_NO_SHRINK_SWISH
#define C12_NO_MM_F64
#else
#error "select a context: -DC12_CTX_SSE | -DC12_CTX_AVX | -DC12_CTX_VEC128 | -DC12_CTX_VEC256 | -DC12_CTX_VEC512 | -DC12_CTX_SIMDE512"
#endif
#if !defined(C12_PART_EW) && !defined(C12_PART_OUTER) && !defined(C12_PART_RED)
#define C12_PART_EW
#define C12_PART_OUTER
#define C12_PART_RED
#endif
#if !defined(C12_ONLY_F32) && !defined(C12_ONLY_F64)
#define C12_ONLY_F32
#define C12_ONLY_F64
#endif
#include "nmtools/array/array/ufuncs/sqrt.hpp"
#include "nmtools/array/array/ufuncs/ceil.hpp"
#include "nmtools/array/array/ufuncs/floor.hpp"
#include "nmtools/array/array/ufuncs/add.hpp"
#include "nmtools/array/array/ufuncs/subtract.hpp"
#include "nmtools/array/array/ufuncs/multiply.hpp"
#include "nmtools/array/array/ufuncs/divide.hpp"
#include "nmtools/array/array/activations/relu.hpp"
#include "nmtools/array/array/activations/relu6.hpp"
#include "nmtools/array/array/activations/hardtanh.hpp"
#include "nmtools/array/array/activations/leaky_relu.hpp"
#include "nmtools/array/array/activations/prelu.hpp"
#include "nmtools/array/array/activations/softshrink.hpp"
#include "nmtools/array/array/activations/softsign.hpp"
#include "nmtools/array/array/activations/hardshrink.hpp"
#include "nmtools/array/array/activations/hardswish.hpp"
#include "nmtools/array/array/matmul.hpp"
#define NMC_MAIN
#include "common.hpp"
#include "nmc_ref_c12.hpp"
#include <set>
#include <new>

const char* nmc_property() { return "C12"; }

// ---------------------------------------------------------------------------------------------------------------------
// guard-page allocator behind global operator new (not under ASan)
#if !defined(__SANITIZE_ADDRESS__) && !defined(C12_NO_GUARD)
#define C12_GUARD 1
namespace guard {
constexpr size_t PG = 4096, ARENA = 1ULL << 40, NCLASS = 64, NSTACK = 4096, POISON = 256;
static char* base = nullptr; static size_t bump = 0;
static bool on = false; static int front = 0;
static char* freelist[NCLASS + 1][NSTACK]; static size_t nfree[NCLASS + 1];
struct Meta { uint64_t magic; size_t body; };
static void init() {
    base = (char*)mmap(nullptr, ARENA, PROT_NONE, MAP_PRIVATE | MAP_ANONYMOUS | MAP_NORESERVE, -1, 0);
    if (base == MAP_FAILED) nmc::die("guard arena mmap");
}
static inline bool mine(const void* p) { return base && (const char*)p >= base && (const char*)p < base + ARENA; }
// slot = [meta page RW][PROT_NONE][body pages RW][PROT_NONE]; a freed slot keeps its protection layout and is reused without system calls.
// The 256 bytes of the body next to the buffer (on its unguarded side) are filled with 0xFF (NaN as float/double, huge as an index), so a stray read
// that stays inside the page is visible in the result as well.
static void* alloc(size_t bytes, size_t align) {
    if (!base) init();
    if (!bytes) bytes = 1;
    size_t body = (bytes + PG - 1) / PG * PG, k = body / PG;
    char* slot;
    if (k <= NCLASS && nfree[k]) slot = freelist[k][--nfree[k]];
    else {
        slot = base + bump; bump += body + 3 * PG; if (bump > ARENA) nmc::die("guard arena exhausted");
        if (mprotect(slot, PG, PROT_READ | PROT_WRITE) || mprotect(slot + 2 * PG, body, PROT_READ | PROT_WRITE)) nmc::die("guard mprotect");
        Meta* m = (Meta*)slot; m->magic = 0xC12C12C12ULL; m->body = body;
    }
    char* b = slot + 2 * PG;
    if (front) { memset(b + bytes, 0xFF, std::min(body - bytes, POISON)); return b; }
    uintptr_t p = (uintptr_t)(b + body - bytes);
    if (align > 1) p &= ~(uintptr_t)(align - 1);
    { size_t gap = (size_t)((char*)p - b), n = std::min(gap, POISON); memset((char*)p - n, 0xFF, n); }
    return (void*)p;
}
static void release(void* q) {
    char* b = (char*)((uintptr_t)q & ~(uintptr_t)(PG - 1)); char* slot = b - 2 * PG; Meta* m = (Meta*)slot;
    if (m->magic != 0xC12C12C12ULL) nmc::die("guard: bad free");
    size_t body = m->body, k = body / PG;
    if (k <= NCLASS && nfree[k] < NSTACK) { freelist[k][nfree[k]++] = slot; return; }
    madvise(b, body, MADV_DONTNEED); mprotect(b, body, PROT_NONE); m->magic = 0;   // address space of rare big / surplus slots is not reused
}
struct Scope { bool prev; Scope(int front_) : prev(on) { on = true; front = front_; } ~Scope() { on = prev; } };
} // namespace guard
static void* c12_new(size_t n, size_t align) {
    if (guard::on) return guard::alloc(n, align);
    void* p = align > alignof(std::max_align_t) ? aligned_alloc(align, (n + align - 1) / align * align) : malloc(n ? n : 1);
    if (!p) throw std::bad_alloc();
    return p;
}
static void c12_delete(void* p) noexcept { if (!p) return; if (guard::mine(p)) guard::release(p); else free(p); }
void* operator new(size_t n) { return c12_new(n, 1); }
void* operator new[](size_t n) { return c12_new(n, 1); }
void* operator new(size_t n, std::align_val_t a) { return c12_new(n, (size_t)a); }
void* operator new[](size_t n, std::align_val_t a) { return c12_new(n, (size_t)a); }
void* operator new(size_t n, const std::nothrow_t&) noexcept { return c12_new(n, 1); }
void* operator new[](size_t n, const std::nothrow_t&) noexcept { return c12_new(n, 1); }
void operator delete(void* p) noexcept { c12_delete(p); }
void operator delete[](void* p) noexcept { c12_delete(p); }
void operator delete(void* p, size_t) noexcept { c12_delete(p); }
void operator delete[](void* p, size_t) noexcept { c12_delete(p); }
void operator delete(void* p, std::align_val_t) noexcept { c12_delete(p); }
void operator delete[](void* p, std::align_val_t) noexcept { c12_delete(p); }
void operator delete(void* p, size_t, std::align_val_t) noexcept { c12_delete(p); }
void operator delete[](void* p, size_t, std::align_val_t) noexcept { c12_delete(p); }
#else
namespace guard { struct Scope { Scope(int) {} }; }
#endif
#if defined(__SANITIZE_ADDRESS__)
// the pinned tree has thousands of out-of-bounds cases: keep each ASan report cheap (no symbolisation, no allocation stacks);
// keys given in the ASAN_OPTIONS environment variable still take precedence
extern "C" const char* __asan_default_options() { return "symbolize=0:malloc_context_size=0:detect_leaks=0:abort_on_error=1:print_legend=0"; }
#endif

// ---------------------------------------------------------------------------------------------------------------------
using nmc::ref::TArr;
namespace r12 = nmc::ref;
template <typename T> using row_t = na::ndarray_t<nmtools_list<T>, nmtools_list<size_t>>;
template <typename T> using col_t = na::column_major_ndarray_t<nmtools_list<T>, nmtools_list<size_t>>;

static bool unary_available(long op) {
#ifdef C12_NO_SHRINK_SWISH
    if (op == nmc::ref::U_SOFTSHRINK || op == nmc::ref::U_HARDSHRINK || op == nmc::ref::U_HARDSWISH) return false;
#endif
    return true;
}
static bool mm_available(int dt) {
#ifdef C12_NO_MM_F64
    if (dt == 1) return false;
#endif
    return true;
}
static int lanes_of(int dt) { return C12_BITS / (dt ? 64 : 32); }
static L uniq(L v) { L r; for (long x : v) if (x >= 1 && std::find(r.begin(), r.end(), x) == r.end()) r.push_back(x); std::sort(r.begin(), r.end()); return r; }
template <typename F> static void each_shape_over(int d, const L& menu, F&& f) {
    nmc::each_tuple((size_t)d, 0, (long)menu.size() - 1, [&](const L& t) { L s; for (long i : t) s.push_back(menu[(size_t)i]); f((const L&)s); });
}

void nmc_enumerate(const nmc::Tier& t, const nmc::Sink& emit) {
    // no duplicates are generated: shape menus are de-duplicated locally (cheap, so that resuming after a crash does not re-hash every key)
    auto put = [&](const Case& c) { emit(c); };
    auto dedupe = [](std::vector<L> v) { std::vector<L> r; std::set<L> seen; for (auto& s : v) if (seen.insert(s).second) r.push_back(s); return r; };
    std::vector<int> dts;
#ifdef C12_ONLY_F32
    dts.push_back(0);
#endif
#ifdef C12_ONLY_F64
    if (t.thorough() || dts.empty()) dts.push_back(1);     // quick tier: float only
#endif
    for (int dt : dts) {
        long ln = lanes_of(dt), maxn = t.thorough() ? 4 * ln + 1 : 2 * ln + 1;
        L E = uniq({1, 2, ln - 1, ln, ln + 1, 2 * ln + 1}), V = uniq({1, 2, ln, ln + 1});
        std::vector<L> ND;     // S(1..3, V)
        for (int d = 1; d <= 3; d++) each_shape_over(d, V, [&](const L& s) { ND.push_back(s); });
#ifdef C12_PART_EW
        // 1-D, every element count
        for (long n = 1; n <= maxn; n++) {
            for (long op = 0; op < r12::U_COUNT; op++) if (unary_available(op)) put(Case("un", {{op, dt, 0}, {n}}));
            for (long op = 0; op < r12::B_COUNT; op++) put(Case("bin", {{op, dt, 0, 0}, {n}, {n}}));
        }
        // 2-D: both extents from E, both layouts; binary in every broadcast pattern
        each_shape_over(2, E, [&](const L& s) {
            for (long lay = 0; lay <= 1; lay++) for (long op = 0; op < r12::U_COUNT; op++) if (unary_available(op)) put(Case("un", {{op, dt, lay}, s}));
            std::vector<L> pat = dedupe({s, {1, s[1]}, {s[0], 1}, {1, 1}});
            for (auto& ls : pat) for (auto& rs : pat) if (std::max(ls[0], rs[0]) == s[0] && std::max(ls[1], rs[1]) == s[1])   // result shape == s: each pair appears under exactly one s
              for (long ll = 0; ll <= 1; ll++) for (long rl = 0; rl <= 1; rl++)
                for (long op = 0; op < r12::B_COUNT; op++) put(Case("bin", {{op, dt, ll, rl}, ls, rs}));
            // operands of DIFFERENT rank ((r,c) with (c)): no SIMD kernel handles them - the evaluation must still equal the scalar one (found unwritten on the pinned tree)
            for (long op = 0; op < r12::B_COUNT; op++) { put(Case("bin", {{op, dt, 0, 0}, s, {s[1]}})); put(Case("bin", {{op, dt, 0, 0}, {s[1]}, s})); }
        });
        // n-d same shape
        for (auto& s : ND) if (s.size() == 3) {
            for (long lay = 0; lay <= 1; lay++) for (long op = 0; op < r12::U_COUNT; op++) if (unary_available(op)) put(Case("un", {{op, dt, lay}, s}));
            for (long ll = 0; ll <= 1; ll++) for (long rl = 0; rl <= 1; rl++) for (long op = 0; op < r12::B_COUNT; op++) put(Case("bin", {{op, dt, ll, rl}, s, s}));
            for (long op = 0; op < r12::B_COUNT; op++) { put(Case("bin", {{op, dt, 0, 0}, s, {s[1], s[2]}})); put(Case("bin", {{op, dt, 0, 0}, {s[2]}, s})); }   // 3-d with 2-d / 1-d
        }
#endif
#ifdef C12_PART_OUTER
        {   // outer: left operand S(1..2,{1,2,3}) (thorough: S(1..3,..)); right operand: every 1-D count, S(2,V) (thorough: S(3,V))
            std::vector<L> LS, RS;
            for (int d = 1; d <= (t.thorough() ? 3 : 2); d++) each_shape_over(d, L{1, 2, 3}, [&](const L& s) { LS.push_back(s); });
            for (long n = 1; n <= maxn; n++) RS.push_back({n});
            for (auto& s : ND) if (s.size() == 2 || (s.size() == 3 && t.thorough())) RS.push_back(s);
            RS = dedupe(RS);
            for (auto& ls : LS) for (auto& rs : RS) {
                if (ls.size() == 3 && rs.size() == 1 && rs[0] > ln + 1 && rs[0] != 2 * ln + 1 && rs[0] != maxn) continue;   // 3-d left x every count: boundary counts only
                if (ls.size() == 3 && rs.size() == 3 && rs[0] > 2) continue;                                                // 3-d x 3-d: leading extent of the right operand 1..2 (size)
                for (long ll = 0; ll <= (ls.size() > 1 ? 1 : 0); ll++) for (long rl = 0; rl <= (rs.size() > 1 ? 1 : 0); rl++)
                    for (long op = 0; op < r12::B_DIV; op++) put(Case("outer", {{op, dt, ll, rl}, ls, rs}));   // add, subtract, multiply (divide.outer does not exist)
            }
            // matmul: M,N in {1,2,lanes+1}, every K
            if (mm_available(dt)) for (long M : uniq({1, 2, ln + 1})) for (long N : uniq({1, 2, ln + 1})) for (long K = 1; K <= maxn; K++) for (long ll = 0; ll <= 1; ll++) put(Case("mm", {{dt, ll}, {M, K, N}}));
        }
#endif
#ifdef C12_PART_RED
        {
            std::vector<L> RS;
            for (long n = 1; n <= maxn; n++) RS.push_back({n});
            each_shape_over(2, E, [&](const L& s) { RS.push_back(s); });
            for (auto& s : ND) RS.push_back(s);
            RS = dedupe(RS);
            for (auto& s : RS) {
                long d = (long)s.size();
                for (long lay = 0; lay <= (d > 1 ? 1 : 0); lay++) for (long op : {(long)r12::B_ADD, (long)r12::B_MUL}) for (long kd = 0; kd <= 5; kd++) {   // kd 4 / 5: keepdims False / True together with an INITIAL value (the SIMD kernels start from the identity; found dropped on the pinned tree)
                    put(Case("red", {{op, dt, lay, kd}, s, {}}));
                    for (long a = 0; a < d; a++) { put(Case("red", {{op, dt, lay, kd}, s, {a}})); put(Case("red", {{op, dt, lay, kd}, s, {a - d}})); }
                }
            }
        }
#endif
    }
}

// ---------------------------------------------------------------------------------------------------------------------
// data: dyadic, no zero, all distinct inside an operand where the op allows it
static long pow2_ge(long n) { long q = 64; while (q < n) q *= 2; return q; }
// distinct values in [-8,8): ((37k+11) mod Q - Q/2) * 16/Q
template <typename T> static TArr<T> data_spread(const L& s) { TArr<T> a(s); long n = a.size(), Q = pow2_ge(n); for (long k = 0; k < n; k++) a.data[(size_t)k] = (T)(((k * 37 + 11) % Q) - Q / 2) * (T)(16.0 / (double)Q); return a; }
// distinct positive values (k'+1)/4
template <typename T> static TArr<T> data_pos(const L& s) { TArr<T> a(s); long n = a.size(), Q = pow2_ge(n); for (long k = 0; k < n; k++) a.data[(size_t)k] = (T)(((k * 37 + 11) % Q) + 1) * (T)0.25; return a; }
// distinct odd multiples of `unit` (never zero): (2*((mul*k+add) mod Q) - Q + 1) * unit
template <typename T> static TArr<T> data_odd(const L& s, long mul, long add, double unit, long Qmin = 0) { TArr<T> a(s); long n = a.size(), Q = Qmin ? Qmin : pow2_ge(n); for (long k = 0; k < n; k++) a.data[(size_t)k] = (T)(2 * ((k * mul + add) % Q) - Q + 1) * (T)unit; return a; }
// factors for an exact product: at most ~48 elements differ from +-1 (2, 0.5, one 3 per eight), pseudo-random signs
template <typename T> static TArr<T> data_factors(const L& s) {
    TArr<T> a(s); long n = a.size(), P = std::max(1L, (n + 47) / 48);
    static const double cyc[8] = {2, 0.5, 3, 0.5, 2, 2, 0.5, 0.5};
    for (long k = 0; k < n; k++) { double m = (k % P == 0) ? cyc[(k / P) % 8] : 1.0; if ((k * 5 + 1) % 3 == 0) m = -m; a.data[(size_t)k] = (T)m; }
    return a;
}

template <typename A, typename T> static A build(const TArr<T>& d) {
    A a; sl shp = to_sl(d.shape); a.resize(shp);
    size_t dim = d.shape.size(); sl ix(dim, 0); long n = d.size();
    for (long k = 0; k < n; k++) {
        nm::apply_at(a, ix) = d.data[(size_t)k];
        for (int x = (int)dim - 1; x >= 0; x--) { if ((long)++ix[(size_t)x] < d.shape[(size_t)x]) break; ix[(size_t)x] = 0; }
    }
    return a;
}

static int g_refused = 0;
static void on_refuse(int site) { if (site == 21) g_refused++; }

struct Run { Obs lazy, scalar, simd; int refused = 0; bool full = false; };
// vf() -> lazy view; ef(ctx...) -> evaluated result
template <typename VF, typename EF> static Run run3(bool full, int front, VF&& vf, EF&& ef) {
    Run r; r.full = full;
    if (full) {
        { const auto v = vf(); r.lazy = nmc::observe(v); }
        { const auto s = ef(); r.scalar = nmc::observe(s); }
    }
    g_refused = 0;
    const auto q = [&]() { guard::Scope g(front); return ef(C12_CTX); }();
    r.refused = g_refused;
    r.simd = nmc::observe(q);
    return r;
}

template <typename T> static std::string elem_diff(const char* what, const Obs& got, const std::vector<double>& want) {
    long i = r12::first_bit_diff(got.data, want); char b[256];
    snprintf(b, sizeof b, "%s: %ld of %zu elements differ, first at flat %ld: %.9g vs %.9g (shape %s)", what, r12::count_bit_diff(got.data, want), want.size(), i,
             i >= 0 && (size_t)i < got.data.size() ? got.data[(size_t)i] : 0.0, i >= 0 && (size_t)i < want.size() ? want[(size_t)i] : 0.0, nmc::str(got.shape).c_str());
    return b;
}
template <typename T> static Outcome verdict(const Run& r, const Run* second, const std::optional<TArr<T>>& want, bool nontrivial) {
    if (!want) nmc::die("model has no result for an enumerated case");
    RArr m = want->widen();
    uint64_t h = r.simd.hash();
    auto shape_of = [](const Obs& o) { return o.shape; };
    // the model and the scalar evaluator first: they define what the SIMD result is compared with
    if (!r.scalar.has) return Outcome::bad("rejects-valid", "scalar evaluator reported Nothing", nontrivial, h);
    if (shape_of(r.scalar) != m.shape) return Outcome::bad("wrong", std::string("MODEL: ") + "scalar evaluator shape " + nmc::str(r.scalar.shape) + " model " + nmc::str(m.shape), nontrivial, h);
    if (!r12::same_bits(r.scalar.data, m.data)) return Outcome::bad("wrong", std::string("MODEL: ") + elem_diff<T>("scalar evaluator vs model", r.scalar, m.data), nontrivial, h);
    if (!r.lazy.has || shape_of(r.lazy) != m.shape || !r12::same_bits(r.lazy.data, m.data)) return Outcome::bad("wrong", std::string("MODEL: ") + "lazy view differs from model/scalar evaluator: " + r.lazy.str(), nontrivial, h);
    // the property
    std::string pre = r.refused ? "SIMD evaluator returned false (result still handed out); " : "";
    if (!r.simd.has) return Outcome::bad("rejects-valid", pre + "SIMD evaluation reported Nothing, scalar gives " + r.scalar.str(), nontrivial, h);
    if (r.simd.bad_shape || shape_of(r.simd) != shape_of(r.scalar)) return Outcome::bad("wrong", pre + "shape: simd " + nmc::str(r.simd.shape) + " scalar " + nmc::str(r.scalar.shape), nontrivial, h);
    if (!r12::same_bits(r.simd.data, r.scalar.data)) return Outcome::bad("wrong", pre + elem_diff<T>("simd vs scalar", r.simd, r.scalar.data), nontrivial, h);
    if (!r12::same_bits(r.simd.data, m.data)) return Outcome::bad("wrong", pre + elem_diff<T>("simd vs model", r.simd, m.data), nontrivial, h);
    if (r.refused) return Outcome::bad("wrong", pre + "although equal to scalar", nontrivial, h);
    if (second) {
        if (second->simd.has != r.simd.has || second->simd.shape != r.simd.shape || !r12::same_bits(second->simd.data, r.simd.data))
            return Outcome::bad("wrong", "simd result depends on buffer placement: " + elem_diff<T>("front-guard run vs back-guard run", second->simd, r.simd.data), nontrivial, h);
    }
    return Outcome::ok(nontrivial, h);
}

// ---- per op-class drivers -----------------------------------------------------------------------------------------------
#ifdef C12_PART_EW
template <typename T, typename A> static Run do_unary(int op, const A& a, bool full, int front) {
    using P = r12::C12Params<T>;
    switch (op) {
    case r12::U_SQRT: return run3(full, front, [&] { return view::sqrt(a); }, [&](auto... c) { return na::sqrt(a, c...); });
    case r12::U_CEIL: return run3(full, front, [&] { return view::ceil(a); }, [&](auto... c) { return na::ceil(a, c...); });
    case r12::U_FLOOR: return run3(full, front, [&] { return view::floor(a); }, [&](auto... c) { return na::floor(a, c...); });
    case r12::U_RELU: return run3(full, front, [&] { return view::relu(a); }, [&](auto... c) { return na::relu(a, c...); });
    case r12::U_RELU6: return run3(full, front, [&] { return view::relu6(a); }, [&](auto... c) { return na::relu6(a, c...); });
    case r12::U_HARDTANH: { T lo = P::hardtanh_min, hi = P::hardtanh_max; return run3(full, front, [&] { return view::hardtanh(a, lo, hi); }, [&](auto... c) { return na::hardtanh(a, lo, hi, c...); }); }
    case r12::U_LEAKY_RELU: { T s = P::leaky_slope; return run3(full, front, [&] { return view::leaky_relu(a, s); }, [&](auto... c) { return na::leaky_relu(a, s, c...); }); }
    case r12::U_PRELU: { T s = P::prelu_alpha; return run3(full, front, [&] { return view::prelu(a, s); }, [&](auto... c) { return na::prelu(a, s, c...); }); }
#ifndef C12_NO_SHRINK_SWISH
    case r12::U_SOFTSHRINK: { T s = P::softshrink_lambda; return run3(full, front, [&] { return view::softshrink(a, s); }, [&](auto... c) { return na::softshrink(a, s, c...); }); }
#endif
    case r12::U_SOFTSIGN: return run3(full, front, [&] { return view::softsign(a); }, [&](auto... c) { return na::softsign(a, c...); });
#ifndef C12_NO_SHRINK_SWISH
    case r12::U_HARDSHRINK: { T s = P::hardshrink_lambda; return run3(full, front, [&] { return view::hardshrink(a, s); }, [&](auto... c) { return na::hardshrink(a, s, c...); }); }
    case r12::U_HARDSWISH: return run3(full, front, [&] { return view::hardswish(a); }, [&](auto... c) { return na::hardswish(a, c...); });
#endif
    }
    nmc::die("unary op");
}
template <typename A, typename B> static Run do_binary(int op, const A& a, const B& b, bool full, int front) {
    switch (op) {
    case r12::B_ADD: return run3(full, front, [&] { return view::add(a, b); }, [&](auto... c) { return na::add(a, b, c...); });
    case r12::B_SUB: return run3(full, front, [&] { return view::subtract(a, b); }, [&](auto... c) { return na::subtract(a, b, c...); });
    case r12::B_MUL: return run3(full, front, [&] { return view::multiply(a, b); }, [&](auto... c) { return na::multiply(a, b, c...); });
    case r12::B_DIV: return run3(full, front, [&] { return view::divide(a, b); }, [&](auto... c) { return na::divide(a, b, c...); });
    }
    nmc::die("binary op");
}
#endif
#ifdef C12_PART_OUTER
template <typename A, typename B> static Run do_outer(int op, const A& a, const B& b, bool full, int front) {
    switch (op) {
    case r12::B_ADD: return run3(full, front, [&] { return view::outer_add(a, b); }, [&](auto... c) { return na::add.outer(a, b, nm::None, c...); });
    case r12::B_SUB: return run3(full, front, [&] { return view::outer_subtract(a, b); }, [&](auto... c) { return na::subtract.outer(a, b, nm::None, c...); });
    case r12::B_MUL: return run3(full, front, [&] { return view::outer_multiply(a, b); }, [&](auto... c) { return na::multiply.outer(a, b, nm::None, c...); });
    // divide has no outer form in nmtools (neither view::outer_divide nor array::divide.outer exists)
    }
    nmc::die("outer op");
}
#endif
#ifdef C12_PART_RED
template <typename A, typename AX, typename KD, typename IN> static Run do_reduce_k(int op, const A& a, const AX& ax, KD kd, IN init, bool full, int front) {
    if (op == r12::B_ADD) return run3(full, front, [&] { return view::reduce_add(a, ax, nm::None, init, kd); }, [&](auto... c) { return na::add.reduce(a, ax, nm::None, init, kd, c...); });
    return run3(full, front, [&] { return view::reduce_multiply(a, ax, nm::None, init, kd); }, [&](auto... c) { return na::multiply.reduce(a, ax, nm::None, init, kd, c...); });
}
template <typename A, typename AX> static Run do_reduce(int op, const A& a, const AX& ax, int kd, bool full, int front) {
    using E = meta::get_element_type_t<A>;
    switch (kd) {
    case 0: return do_reduce_k(op, a, ax, nm::False, nm::None, full, front);
    case 1: return do_reduce_k(op, a, ax, nm::True, nm::None, full, front);
    case 2: return do_reduce_k(op, a, ax, false, nm::None, full, front);
    case 3: return do_reduce_k(op, a, ax, true, nm::None, full, front);
    case 4: return do_reduce_k(op, a, ax, nm::False, (E)3, full, front);
    default: return do_reduce_k(op, a, ax, nm::True, (E)3, full, front);
    }
}
#endif

// two runs of the SIMD evaluation: buffers flush with the guard page behind them (full comparison), then in front of them
template <typename T, typename F> static Outcome twice(const std::optional<TArr<T>>& want, bool nontrivial, F&& f) {
    Run r1 = f(true, 0);
#ifdef C12_GUARD
    Run r2 = f(false, 1);
    return verdict<T>(r1, &r2, want, nontrivial);
#else
    return verdict<T>(r1, nullptr, want, nontrivial);
#endif
}
template <typename T, typename F> static auto with_layout(long lay, const TArr<T>& d, int front, F&& f) {
    if (lay == 0) { auto a = [&] { guard::Scope g(front); return build<row_t<T>>(d); }(); return f(a); }
    auto a = [&] { guard::Scope g(front); return build<col_t<T>>(d); }(); return f(a);
}

template <typename T> static Outcome execute_t(const Case& c) {
    const std::string& o = c.op; const L& h = c.a[0]; long ln = C12_BITS / (8 * (long)sizeof(T));
#ifdef C12_PART_EW
    if (o == "un") {
        int op = (int)h[0]; long lay = h[2]; const L& s = c.a[1];
        TArr<T> d = op == r12::U_SQRT ? data_pos<T>(s) : data_spread<T>(s);
        std::optional<TArr<T>> want = r12::c12_map<T>(op, d);
        return twice<T>(want, d.size() >= ln, [&](bool full, int front) { return with_layout<T>(lay, d, front, [&](const auto& a) { return do_unary<T>(op, a, full, front); }); });
    }
    if (o == "bin") {
        int op = (int)h[0]; const L& ls = c.a[1]; const L& rs = c.a[2];
        TArr<T> x = data_odd<T>(ls, 37, 11, 0.125), y = data_odd<T>(rs, 29, 5, 0.25);
        std::optional<TArr<T>> want = r12::c12_broadcast_binary<T>(op, x, y);
        bool nt = want && (ls == rs ? want->size() >= ln : want->shape.back() >= ln);
        return twice<T>(want, nt, [&](bool full, int front) {
            return with_layout<T>(h[2], x, front, [&](const auto& a) { return with_layout<T>(h[3], y, front, [&](const auto& b) { return do_binary(op, a, b, full, front); }); });
        });
    }
#endif
#ifdef C12_PART_OUTER
    if (o == "outer") {
        int op = (int)h[0]; const L& ls = c.a[1]; const L& rs = c.a[2];
        TArr<T> x = data_odd<T>(ls, 5, 3, 0.5, 32), y = data_odd<T>(rs, 29, 5, 0.25);
        std::optional<TArr<T>> want = r12::c12_outer<T>(op, x, y);
        return twice<T>(want, rs.back() >= ln, [&](bool full, int front) {
            return with_layout<T>(h[2], x, front, [&](const auto& a) { return with_layout<T>(h[3], y, front, [&](const auto& b) { return do_outer(op, a, b, full, front); }); });
        });
    }
    if (o == "mm") {
#ifdef C12_NO_MM_F64
        if constexpr (sizeof(T) == 8) nmc::die("matmul<double> does not compile with this context");
        else {
#endif
        long lay = h[1]; long M = c.a[1][0], K = c.a[1][1], N = c.a[1][2];
        TArr<T> x = data_odd<T>(L{M, K}, 37, 11, 0.5, 64), y = data_odd<T>(L{K, N}, 29, 5, 0.25, 64);
        std::optional<TArr<T>> want = r12::c12_matmul<T>(x, y);
        return twice<T>(want, K >= ln, [&](bool full, int front) {
            return with_layout<T>(lay, x, front, [&](const auto& a) {
                auto b = [&] { guard::Scope g(front); return build<col_t<T>>(y); }();
                return run3(full, front, [&] { return view::matmul(a, b); }, [&](auto... cx) { return na::matmul(a, b, cx...); });
            });
        });
#ifdef C12_NO_MM_F64
        }
#endif
    }
#endif
#ifdef C12_PART_RED
    if (o == "red") {
        int op = (int)h[0]; long lay = h[2]; int kd = (int)h[3]; const L& s = c.a[1]; const L& ax = c.a[2];
        TArr<T> d = op == r12::B_MUL ? data_factors<T>(s) : data_odd<T>(s, 37, 11, 0.5, 64);
        bool keep = kd == 1 || kd == 3 || kd == 5;
        std::optional<TArr<T>> want = ax.empty() ? r12::c12_reduce<T>(op, d, nullptr, keep) : r12::c12_reduce<T>(op, d, &ax[0], keep);
        if (want && kd >= 4) for (auto& v : want->data) v = op == r12::B_MUL ? (T)((T)3 * v) : (T)((T)3 + v);   // the fold starts from the initial value 3 (exact: small-integer data)
        bool nt;
        if (ax.empty()) nt = d.size() >= ln && d.size() >= 2;
        else { long dd = (long)s.size(), a = ax[0] < 0 ? ax[0] + dd : ax[0]; long inner = 1; for (long i = a + 1; i < dd; i++) inner *= s[(size_t)i]; nt = s[(size_t)a] >= 2 && (a == dd - 1 ? s[(size_t)a] >= ln : inner >= ln); }
        return twice<T>(want, nt, [&](bool full, int front) {
            return with_layout<T>(lay, d, front, [&](const auto& a) {
                if (ax.empty()) return do_reduce(op, a, nm::None, kd, full, front);
                int axis = (int)ax[0]; return do_reduce(op, a, axis, kd, full, front);
            });
        });
    }
#endif
    nmc::die("unknown op (or op class not compiled into this unit)");
}

Outcome nmc_execute(const Case& c) {
    nm::verif::on_eval_shape_mismatch = on_refuse;
    long dt = c.op == "mm" ? c.a[0][0] : c.a[0][1];
    nmc::count(dt ? "cases_f64" : "cases_f32"); nmc::count("ctx_" C12_NAME);
    if (dt == 0) {
#ifdef C12_ONLY_F32
        return execute_t<float>(c);
#endif
    } else {
#ifdef C12_ONLY_F64
        return execute_t<double>(c);
#endif
    }
    nmc::die("element type not compiled into this unit");
}

void nmc_selftest() {
    // the oracle must see (1) a flat walk over a column-major buffer, (2) a reduction started from the wrong identity, (3) a sign-of-zero difference
    TArr<float> d = data_pos<float>(L{3, 5});
    TArr<float> want = r12::c12_map<float>(r12::U_SQRT, d);
    Obs good = want.widen().obs();
    Obs flat = good;   // what a raw flat walk over the column-major buffer produces: out.flat[k] = f(buffer[k]), buffer[j*3+i] = d(i,j)
    for (long k = 0; k < 15; k++) { long j = k / 3, i = k % 3; flat.data[(size_t)k] = std::sqrt((double)d.at({i, j})); }
    Run r; r.lazy = good; r.scalar = good; r.simd = flat; r.full = true;
    std::optional<TArr<float>> w = want;
    if (verdict<float>(r, nullptr, w, true).fail.empty()) nmc::die("selftest: oracle blind to a flat walk over a column-major operand");
    r.simd = good; if (!verdict<float>(r, nullptr, w, true).fail.empty()) nmc::die("selftest: oracle rejects the correct result");
    TArr<double> f = data_factors<double>(L{9}); long ax = 0;
    auto p = r12::c12_reduce<double>(r12::B_MUL, f, &ax, false);
    if (!p || p->data[0] == 0.0 || p->shape != L{}) nmc::die("selftest: product model");
    Obs zero = p->widen().obs(); zero.data[0] = 0.0;   // product started from 0
    Run r2; r2.lazy = r2.scalar = p->widen().obs(); r2.simd = zero; r2.full = true;
    if (verdict<double>(r2, nullptr, p, true).fail.empty()) nmc::die("selftest: oracle blind to a wrong reduction identity");
    std::vector<double> pz{0.0}, nz{-0.0};
    if (r12::same_bits(pz, nz)) nmc::die("selftest: sign of zero not compared");
    TArr<float> s = data_odd<float>(L{64}, 37, 11, 0.5, 64); std::set<float> u(s.data.begin(), s.data.end());
    if (u.size() != 64 || u.count(0.0f)) nmc::die("selftest: data not distinct / contains zero");
    long axn = -1; auto k = r12::c12_reduce<float>(r12::B_ADD, TArr<float>(L{2, 3}), &axn, true); if (!k || k->shape != L{2, 1}) nmc::die("selftest: keepdims model");
}
