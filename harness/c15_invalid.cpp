// C15 (E1 part) - invalid arguments are reported as 'Nothing', never as garbage or a crash.
// Single operations over the FULL small-scope argument space, the invalid part included.  (The "propagation through
// pipelines" clause of the property is checked by the E2 pipeline harness, not here.)
//
// Units (same source, one -D flag each; no flag = every unit except STACK in one translation unit).  Every unit is built twice:
// with assertions enabled (default) and with -DNDEBUG (many argument checks of nmtools live in nmtools_cassert, which
// is <cassert>'s assert on the host: under NDEBUG an unwrap of an empty optional is silent undefined behaviour).
//   -DC15_REARR    reshape, transpose, moveaxis (int and list form), swapaxes, expand_dims (int and list), flip (int and
//                  list), resize
//   -DC15_REDUCE   sum (int axis / axis list, keepdims absent and True), cumsum
//   -DC15_STACK    stack (its own unit: view::stack calls concatenate unqualified, which is ambiguous through ADL once
//                  array/concatenate.hpp is visible - the same split as harness/c04a_select.cpp)
//   -DC15_SELECT   concatenate, take, roll (int and list form), repeat (scalar / per-element, axis and None),
//                  tile, pad, compress
//   -DC15_BCAST    broadcast_to (targets incl. 0 / negative extents), add (binary ufunc), broadcast_arrays
//   -DC15_LINALG   matmul, dot, tensordot (run-time int axes and explicit axis-list pairs)
//   -DC15_REFDUMP  (audit tool, no nmtools calls) prints "key<TAB>R" (NumPy raises) or "key<TAB>shape<TAB>data" of the
//                  model for every enumerated case of every unit; `--script` prints the NumPy audit script that
//                  recomputes every line with NumPy 2.4 (see the end of this file).
//
// Case keys (operands are all-dynamic ndarray_t<list<long>,list<size_t>> filled 1,2,3.. (second operand 101,102,..);
// shape / axis arguments are nmtools_list<int> or int):
//   reshape|s|dst   transpose|s|axes   moveaxis1|s|a|b   moveaxis|s|src|dst   swapaxes|s|a|b
//   expand_dims1|s|a   expand_dims|s|axes   flip1|s|a   flip|s|axes   resize|s|dst
//   sum1|s|a|kd   sum|s|axes|kd   cumsum|s|a                      (kd 0 = keepdims absent, 1 = nm::True)
//   concat|sa|sb|ax   stack|sa|sb|ax   take|s|ind|ax   roll1|s|shift|ax   roll|s|shifts|axes   rolls|s|shift|axes
//   repeat|s|reps|ax (one entry = scalar count)   repeatl|s|reps|ax (list counts)   repeat_none|s|r
//   tile|s|reps   pad|s|widths (flat ONNX order: befores then afters)   compress|s|mask|ax
//   bto|s|dst   add|sa|sb   barr|sa|sb
//   matmul|sa|sb   dot|sa|sb   tdn|sa|sb|n   tdx|sa|sb|axa|axb
//
// Oracle (judge15): model = NumPy (nmc_ref.hpp / nmc_ref_c15.hpp, audited against NumPy 2.4, see REFDUMP):
//   NumPy raises            -> both the lazy view and the evaluated array must report Nothing        (else accepts-invalid)
//   NumPy returns a value   -> both must hold a value with the model's shape and every element equal (else rejects-valid / wrong)
//   NumPy returns an EMPTY array (zero count / zero extent; nmtools has no empty arrays, so the argument is outside its
//                              domain) -> Nothing, or a value of exactly the model's (zero-extent) shape, are both accepted;
//                              a non-empty value is "wrong" with the detail prefix "empty-result:"
//   a SIGFPE / SIGSEGV / abort (assertion, uncaught exception, sanitizer report) is recorded by the runner as kind crash.
//   The lazy view and the evaluated array must also agree with each other.
//   Model notes: (1) reshape: NumPy 2.4 treats ANY single negative entry as the unknown dimension although only -1 is
//   documented and the property text calls a negative extent invalid - for exactly those targets Nothing and NumPy's value
//   are both accepted (alt_model_of); (2) pad takes nmtools' flat ONNX-ordered width list: a list whose length is not 2*d
//   has no NumPy counterpart and counts as invalid, negative widths raise in NumPy; (3) resize is nmtools' nearest-neighbour
//   resampling (no NumPy counterpart): the model uses its documented precondition (same rank, every extent > 0).
//   Candidate fixes for the failure families of the pinned tree: harness/c15_candidate_patches.diff (not applied).
//
// Non-triviality rule: a case is non-trivial iff NumPy raises for its arguments (the invalid part of the space - the
// subject of this property), or the NumPy result is non-empty and differs from the first operand in shape or in
// element order/values.  (Valid identity cases and empty-result cases are trivial.)
//
// Bounds.  F = S(1..4,3) (120 source shapes), Q = S(1..4,2) (30), P = S(1..3,2) (14); d = source rank; A(d) = [-d-2, d+1];
// "lists a..b over R" = EVERY list of length a..b with entries in R (duplicates included; length 0 = the empty list).
// On the pinned tree most invalid arguments abort (assert) - an abort costs a fork and a re-enumeration - hence the quick
// tier keeps the abort-heavy part of the space small; nothing is sampled, every stated set is enumerated completely.
//   SCALAR-AXIS SOURCES  quick: Q        thorough: F
//   AXIS LISTS           quick: Q x lists 0..2 over A(d) (d = 4: 0..1)      thorough: F x lists 0..2 over A(d) and P x lists of length 3
//   OPERAND PAIRS        quick: all ordered pairs of S(1..3,2) (196)        thorough: all ordered pairs of S(1..3,3) (1521)
//   reshape       lists 1..3 over -2..4 on  quick: S(1..3,2) u S(1..2,3)    thorough: F
//   transpose     AXIS LISTS + full-length lists (the only length NumPy accepts) for d = 3: source (1,2,3), length 3 over A(3);
//                 d = 4: source (1,2,3,2) (thorough: and (2,2,2,2)), length 4 over [-d-1, d] (quick: at most one entry outside [0,d))
//   flip, sum (keepdims absent; keepdims True on Q for lists 0..2), rolls (scalar shift 1): AXIS LISTS;  expand_dims: AXIS LISTS over [-d-3, d+2]
//   roll (list shifts 1,2,..): AXIS LISTS of length <= 2, shift list of the same length, of length 1 and one longer
//   swapaxes, moveaxis1: SCALAR-AXIS SOURCES x A(d) x A(d) (quick, d = 4: second axis in {-d-2,-d,-1,0,d-1,d,d+1})
//   expand_dims1 ([-d-3,d+2]), flip1, sum1 (keepdims absent / True), cumsum, roll1 (shift -1,0,1,4), repeat (count -2..3),
//   compress (masks 1..4 over {0,1}), take (index lists over [-5,4], length 1..2 for d <= 2 (thorough: and on Q), else 1): SCALAR-AXIS SOURCES x A(d)
//   moveaxis      (list form) Q x (lists 0..2 over A(d))^2 for d <= 2; d >= 3: (lists 0..1)^2 and equal-length-2 lists over [-d, d] (d = 4: thorough only)
//   resize        SCALAR-AXIS SOURCES x lists 1..3 over -2..4 (d = 3 quick: -1..3; d = 4: lists 1..3 over -1..2, length 4 over -1..2 (quick 0..2))
//   repeat_none   count -2..3;   repeatl: Q (quick: P) x every valid axis x lists 1..k over -1..2, k = 4 (d <= 2) / 3 thorough, 3 / 2 quick
//   tile          SCALAR-AXIS SOURCES x lists 1..3 over -2..3 (d >= 3 outside Q, and d >= 3 in the quick tier: 1..2)
//   pad           Q; d <= 2: lists 0..2d+1 over {-1,0,1}; d >= 3: every wrong length 0..2d+1 over {0,1}, the right length over {-1,0,1}
//                 with at most 2 non-zero entries (d = 3 thorough: all)
//   concat        OPERAND PAIRS x A(d);   stack: OPERAND PAIRS x [-d-3, d+2]
//   bto           S(1..3,3) x lists 1..3 over -2..4;   add, barr: all ordered pairs of S(1..3,3) (thorough: of F)
//   matmul, dot   OPERAND PAIRS;   tdn: OPERAND PAIRS x n in -2..4
//   tdx           lengths (0,0) (0,1) (1,0) (1,1) over A(d) on all ordered pairs of S(1..2,2) (thorough: S(1..2,3));
//                 lengths (1,2) (2,1) (2,2) on all ordered pairs of S(1..2,2), entries over [-d, d-1] (thorough: [-d-1, d])
#if !defined(C15_REARR) && !defined(C15_REDUCE) && !defined(C15_SELECT) && !defined(C15_STACK) && !defined(C15_BCAST) && !defined(C15_LINALG)
#ifdef C15_REFDUMP
#define C15_STACK
#endif
#define C15_REARR
#define C15_REDUCE
#define C15_SELECT
#define C15_BCAST
#define C15_LINALG
#endif
#ifndef C15_REFDUMP
#ifdef C15_REARR
#include "nmtools/array/array/reshape.hpp"
#include "nmtools/array/array/transpose.hpp"
#include "nmtools/array/array/moveaxis.hpp"
#include "nmtools/array/array/swapaxes.hpp"
#include "nmtools/array/array/expand_dims.hpp"
#include "nmtools/array/array/flip.hpp"
#include "nmtools/array/array/resize.hpp"
#endif
#ifdef C15_REDUCE
#include "nmtools/array/array/sum.hpp"
#include "nmtools/array/view/cumsum.hpp"   // (array/cumsum.hpp makes the unqualified call inside view::cumsum ambiguous through ADL)
#endif
#ifdef C15_SELECT
#include "nmtools/array/array/concatenate.hpp"
#include "nmtools/array/array/take.hpp"
#include "nmtools/array/array/roll.hpp"
#include "nmtools/array/array/repeat.hpp"
#include "nmtools/array/array/tile.hpp"
#include "nmtools/array/array/pad.hpp"
#include "nmtools/array/array/compress.hpp"
#endif
#ifdef C15_STACK
#include "nmtools/array/array/stack.hpp"
#endif
#ifdef C15_BCAST
#include "nmtools/array/array/broadcast_to.hpp"
#include "nmtools/array/view/broadcast_arrays.hpp"
#include "nmtools/array/array/ufuncs/add.hpp"
#endif
#ifdef C15_LINALG
#include "nmtools/array/array/matmul.hpp"
#include "nmtools/array/array/dot.hpp"
#include "nmtools/array/array/tensordot.hpp"
#endif
#define NMC_MAIN
#include "common.hpp"
#else
#include "nmc.hpp"
#include "nmc_enum.hpp"
#include "nmc_ref.hpp"
using nmc::L; using nmc::LL; using nmc::Case; using nmc::Outcome; using nmc::RArr; using nmc::ROpt; using nmc::Obs;
namespace ref = nmc::ref;
#endif
#include "nmc_ref_c15.hpp"
namespace r15 = nmc::ref::c15;

const char* nmc_property() { return "C15"; }

// ------------------------------------------------------------------------------------------------ enumeration
// every list of length kmin..kmax over [lo, hi] (length 0 = the empty list), shortest first
template <typename F> static void lists(int kmin, int kmax, long lo, long hi, F&& f) { for (int k = kmin; k <= kmax; k++) nmc::each_tuple((size_t)k, lo, hi, f); }
static long maxext(const L& s) { long m = 0; for (long v : s) m = std::max(m, v); return m; }
static bool in_small(const L& s) { return maxext(s) <= 2; }                                   // S(1..4,2)
// operand pairs: all ordered pairs of S(1..3,3) (thorough) / of S(1..3,2) (quick)
template <typename F> static void op_pairs(const nmc::Tier& t, F&& f) {
    long e = t.thorough() ? 3 : 2;
    nmc::each_shape_range(1, 3, e, [&](const L& a) { nmc::each_shape_range(1, 3, e, [&](const L& b) { f(a, b); }); });
}

void nmc_enumerate(const nmc::Tier& t, const nmc::Sink& emit0) {
    const bool T = t.thorough();
#ifdef C15_ONLY   // debugging aid: -DC15_ONLY='"transpose"' restricts a unit to one operation
    nmc::Sink emit = [&](const Case& c) { if (c.op == C15_ONLY) emit0(c); };
#else
    const nmc::Sink& emit = emit0;
#endif
    // source sets: F = S(1..4,3) (120 shapes), Q = S(1..4,2) (30), P = S(1..3,2) (14)
    auto F = [&](auto&& f) { nmc::each_shape_range(1, 4, 3, f); };
    auto Q = [&](auto&& f) { nmc::each_shape_range(1, 4, 2, f); };
    auto P = [&](auto&& f) { nmc::each_shape_range(1, 3, 2, f); };
    auto scalar_sources = [&](auto&& f) { if (T) F(f); else Q(f); };          // operations with one or two scalar axis arguments
    // axis lists: thorough: F x lists <= 2 and P x lists of length 3; quick: P x lists <= 2 and S(4,2) x lists <= 1
    auto axis_lists = [&](long widen, auto&& f) {
        if (T) { F([&](const L& s) { long d = (long)s.size(); lists(0, 2, -d - 2 - widen, d + 1 + widen, [&](const L& ax) { f(s, ax); }); });
                 P([&](const L& s) { long d = (long)s.size(); lists(3, 3, -d - 2 - widen, d + 1 + widen, [&](const L& ax) { f(s, ax); }); }); }
        else Q([&](const L& s) { long d = (long)s.size(); lists(0, d <= 3 ? 2 : 1, -d - 2 - widen, d + 1 + widen, [&](const L& ax) { f(s, ax); }); });
    };
    (void)F; (void)Q; (void)P; (void)scalar_sources; (void)axis_lists;
#ifdef C15_REARR
    // (operations whose invalid arguments abort on the pinned tree come first: a restart after a contained crash re-enumerates
    //  up to the crashing case, so the abort-heavy part of the space is kept at small indices)
    // reshape: the source matters through its element count only
    if (T) F([&](const L& s) { lists(1, 3, -2, 4, [&](const L& dst) { emit(Case("reshape", {s, dst})); }); });
    else nmc::each_shape_range(1, 3, 3, [&](const L& s) { if (in_small(s) || s.size() <= 2) lists(1, 3, -2, 4, [&](const L& dst) { emit(Case("reshape", {s, dst})); }); });
    scalar_sources([&](const L& s) {
        long d = (long)s.size(), lo = -d - 2, hi = d + 1;
        if (T || d <= 3) for (long a = lo; a <= hi; a++) for (long b = lo; b <= hi; b++) { emit(Case("swapaxes", {s, {a}, {b}})); emit(Case("moveaxis1", {s, {a}, {b}})); }
        else for (long a = lo; a <= hi; a++) for (long b : {lo, -d, -1L, 0L, d - 1, d, hi}) { emit(Case("swapaxes", {s, {a}, {b}})); emit(Case("moveaxis1", {s, {a}, {b}})); }
        for (long a = -d - 3; a <= d + 2; a++) emit(Case("expand_dims1", {s, {a}}));
        for (long a = lo; a <= hi; a++) emit(Case("flip1", {s, {a}}));
    });
    axis_lists(1, [&](const L& s, const L& ax) { emit(Case("expand_dims", {s, ax})); });
    axis_lists(0, [&](const L& s, const L& ax) { emit(Case("transpose", {s, ax})); });
    // transpose, full-length lists for d = 3, 4 (the only lengths NumPy accepts): d = 3: source (1,2,3), every list over A(3);
    // d = 4: source (1,2,3,2) (thorough: and (2,2,2,2)), lists over [-d-1, d] (quick: with at most one entry outside [0, d))
    F([&](const L& s) {
        long d = (long)s.size();
        if (d == 3 && s == L{1, 2, 3}) lists(3, 3, -d - 2, d + 1, [&](const L& ax) { emit(Case("transpose", {s, ax})); });
        if (d == 4 && (s == L{1, 2, 3, 2} || (T && s == L{2, 2, 2, 2}))) lists(4, 4, -d - 1, d, [&](const L& ax) { long off = 0; for (long v : ax) off += (v < 0 || v >= d); if (T || off <= 1) emit(Case("transpose", {s, ax})); });
    });
    axis_lists(0, [&](const L& s, const L& ax) { emit(Case("flip", {s, ax})); });
    // resize: targets of every length 1..3 (d = 4: 1..4) incl. 0 / negative extents
    scalar_sources([&](const L& s) {
        long d = (long)s.size();
        if (d <= 2) lists(1, 3, -2, 4, [&](const L& dst) { emit(Case("resize", {s, dst})); });
        else if (d == 3) lists(1, 3, T ? -2 : -1, T ? 4 : 3, [&](const L& dst) { emit(Case("resize", {s, dst})); });
        else { lists(1, 3, -1, 2, [&](const L& dst) { emit(Case("resize", {s, dst})); }); lists(4, 4, T ? -1 : 0, 2, [&](const L& dst) { emit(Case("resize", {s, dst})); }); }
    });
    // moveaxis, list form: (lists <= 2 over A(d))^2 for d <= 2; d >= 3: (lists <= 1)^2 and equal-length-2 lists over [-d, d]
    Q([&](const L& s) {
        long d = (long)s.size(), lo = -d - 2, hi = d + 1; int k = d <= 2 ? 2 : 1;
        lists(0, k, lo, hi, [&](const L& src) { lists(0, k, lo, hi, [&](const L& dst) { emit(Case("moveaxis", {s, src, dst})); }); });
        if (d == 3 || (d == 4 && T)) lists(2, 2, -d, d, [&](const L& src) { lists(2, 2, -d, d, [&](const L& dst) { emit(Case("moveaxis", {s, src, dst})); }); });
        // full-length lists on rank 3: every in-range source triple (repeats in every position and spelling: (0,1,0), (0,1,-3), ...) against destinations that are a
        // permutation in three spellings, a rotation, a repeat and an out-of-range entry (seeded change m15b: a duplicate check that only compares neighbours in
        // destination order needs >= 3 axes to be wrong); thorough: the same with the roles of source and destination exchanged
        if (d == 3) {
            static const std::vector<L> fixed = {{0, 1, 2}, {2, 1, 0}, {-1, -2, -3}, {1, 2, 0}, {0, 0, 1}, {0, 1, 3}};
            lists(3, 3, -3, 2, [&](const L& src) { for (auto& dst : fixed) emit(Case("moveaxis", {s, src, dst})); });
            if (T) lists(3, 3, -3, 2, [&](const L& dst) { for (auto& src : fixed) emit(Case("moveaxis", {s, src, dst})); });
        }
    });
#endif
#ifdef C15_REDUCE
    scalar_sources([&](const L& s) {
        long d = (long)s.size(), lo = -d - 2, hi = d + 1;
        for (long kd = 0; kd <= 1; kd++) for (long a = lo; a <= hi; a++) emit(Case("sum1", {s, {a}, {kd}}));
        for (long a = lo; a <= hi; a++) emit(Case("cumsum", {s, {a}}));
    });
    axis_lists(0, [&](const L& s, const L& ax) { emit(Case("sum", {s, ax, {0}})); if (ax.size() <= 2 && in_small(s)) emit(Case("sum", {s, ax, {1}})); });
#endif
#ifdef C15_SELECT
    op_pairs(t, [&](const L& a, const L& b) { long d = (long)a.size(); for (long ax = -d - 2; ax <= d + 1; ax++) emit(Case("concat", {a, b, {ax}})); });
    // repeat with per-element counts: every list of length 1..3 (d <= 2: 1..4 in the thorough tier) over -1..2, every valid axis;
    // quick: d <= 2 lengths 1..3, d = 3 lengths 1..2
    Q([&](const L& s) { long d = (long)s.size(); if (!T && d == 4) return; int k = T ? (d <= 2 ? 4 : 3) : (d <= 2 ? 3 : 2);
        for (long ax = -d; ax < d; ax++) lists(1, k, -1, 2, [&](const L& reps) { emit(Case("repeatl", {s, reps, {ax}})); }); });
    scalar_sources([&](const L& s) {
        long d = (long)s.size(), lo = -d - 2, hi = d + 1;
        for (long ax = lo; ax <= hi; ax++) {
            lists(1, (d <= 2 || (T && in_small(s))) ? 2 : 1, -5, 4, [&](const L& ind) { emit(Case("take", {s, ind, {ax}})); });
            for (long sh : {-1L, 0L, 1L, 4L}) emit(Case("roll1", {s, {sh}, {ax}}));
            for (long r = -2; r <= 3; r++) emit(Case("repeat", {s, {r}, {ax}}));
            lists(1, 4, 0, 1, [&](const L& m) { emit(Case("compress", {s, m, {ax}})); });
        }
        for (long r = -2; r <= 3; r++) emit(Case("repeat_none", {s, {r}}));
        lists(1, (d <= 2 || (T && in_small(s))) ? 3 : 2, -2, 3, [&](const L& reps) { emit(Case("tile", {s, reps})); });
    });
    // roll, list forms: "rolls" = scalar shift 1 with an axis list; "roll" = shift list (1,2,..) of the same length, of length 1
    // (broadcast against the axes) and one longer (a mismatch unless the axis list has length 1)
    axis_lists(0, [&](const L& s, const L& ax) {
        emit(Case("rolls", {s, {1}, ax}));
        size_t k = ax.size(); if (k == 3) return;
        for (size_t n = 1; n <= 3; n++) if (n == k || n == 1 || n == k + 1) { L sh; for (size_t i = 0; i < n; i++) sh.push_back((long)i + 1); emit(Case("roll", {s, sh, ax})); }
    });
    // pad (flat widths): d <= 2: every list of length 0..2d+1 over {-1,0,1}; d >= 3: wrong lengths over {0,1}, the right length over
    // {-1,0,1} (d = 4, and d = 3 in the quick tier: at most 2 non-zero entries)
    Q([&](const L& s) {
        long d = (long)s.size();
        if (d <= 2) { lists(0, (int)(2 * d + 1), -1, 1, [&](const L& pw) { emit(Case("pad", {s, pw})); }); return; }
        for (int k = 0; k <= 2 * d + 1; k++) if (k != 2 * d) lists(k, k, 0, 1, [&](const L& pw) { emit(Case("pad", {s, pw})); });
        lists((int)(2 * d), (int)(2 * d), -1, 1, [&](const L& pw) { long nz = 0; for (long v : pw) nz += v != 0; if ((T && d == 3) || nz <= 2) emit(Case("pad", {s, pw})); });
    });
#endif
#ifdef C15_STACK
    op_pairs(t, [&](const L& a, const L& b) { long d = (long)a.size(); for (long ax = -d - 3; ax <= d + 2; ax++) emit(Case("stack", {a, b, {ax}})); });
#endif
#ifdef C15_BCAST
    nmc::each_shape_range(1, 3, 3, [&](const L& s) { lists(1, 3, -2, 4, [&](const L& dst) { emit(Case("bto", {s, dst})); }); });
    nmc::each_shape_range(1, T ? 4 : 3, 3, [&](const L& a) { nmc::each_shape_range(1, T ? 4 : 3, 3, [&](const L& b) { emit(Case("add", {a, b})); emit(Case("barr", {a, b})); }); });
#endif
#ifdef C15_LINALG
    op_pairs(t, [&](const L& a, const L& b) {
        emit(Case("matmul", {a, b})); emit(Case("dot", {a, b}));
        for (long n = -2; n <= 4; n++) emit(Case("tdn", {a, b, {n}}));
    });
    // tdx: explicit axis-list pairs (xa, xb).  Lists of different length are invalid whatever their entries.
    //   lengths (0,0) (0,1) (1,0) (1,1): entries over A(d), all ordered pairs of S(1..2,2) (thorough: S(1..2,3));
    //   lengths (1,2) (2,1) (2,2): all ordered pairs of S(1..2,2), entries over the valid range [-d, d-1] (thorough: [-d-1, d])
    nmc::each_shape_range(1, 2, T ? 3 : 2, [&](const L& a) { nmc::each_shape_range(1, 2, T ? 3 : 2, [&](const L& b) {
        long da = (long)a.size(), db = (long)b.size(), w = T ? 1 : 0;
        for (int ka = 0; ka <= 1; ka++) for (int kb = 0; kb <= 1; kb++) lists(ka, ka, -da - 2, da + 1, [&](const L& xa) { lists(kb, kb, -db - 2, db + 1, [&](const L& xb) { emit(Case("tdx", {a, b, xa, xb})); }); });
        if (!in_small(a) || !in_small(b)) return;
        for (int ka = 1; ka <= 2; ka++) for (int kb = 1; kb <= 2; kb++) if (ka + kb >= 3) lists(ka, ka, -da - w, da - 1 + w, [&](const L& xa) { lists(kb, kb, -db - w, db - 1 + w, [&](const L& xb) { emit(Case("tdx", {a, b, xa, xb})); }); });
    }); });
#endif
}

// ------------------------------------------------------------------------------------------------ model
static ROpt model_of(const Case& c) {
    const std::string& op = c.op; const L& s = c.a[0];
    RArr r = RArr::iota(s);
    auto second = [&]() { return RArr::iota(c.a[1], 101); };
    if (op == "reshape") return r15::reshape(r, c.a[1]);
    if (op == "transpose") return r15::transpose(r, c.a[1]);
    if (op == "moveaxis1" || op == "moveaxis") return r15::moveaxis(r, c.a[1], c.a[2]);
    if (op == "swapaxes") return ref::swapaxes(r, c.a[1][0], c.a[2][0]);
    if (op == "expand_dims1" || op == "expand_dims") return ref::expand_dims(r, c.a[1]);
    if (op == "flip1" || op == "flip") return r15::flip(r, c.a[1]);
    if (op == "resize") return r15::resize_nearest(r, c.a[1]);
    if (op == "sum1" || op == "sum") return r15::sum(r, c.a[1], c.a[2][0] != 0);
    if (op == "cumsum") return r15::cumsum(r, c.a[1][0]);
    if (op == "concat") return r15::concatenate(r, second(), c.a[2][0]);
    if (op == "stack") return r15::stack(r, second(), c.a[2][0]);
    if (op == "take") return r15::take(r, c.a[1], c.a[2][0]);
    if (op == "roll1") return r15::roll(r, c.a[1], true, c.a[2]);
    if (op == "rolls") return r15::roll(r, c.a[1], true, c.a[2]);
    if (op == "roll") return r15::roll(r, c.a[1], false, c.a[2]);
    if (op == "repeat" || op == "repeatl") return r15::repeat(r, c.a[1], c.a[2][0]);
    if (op == "repeat_none") return r15::repeat_none(r, c.a[1]);
    if (op == "tile") return r15::tile(r, c.a[1]);
    if (op == "pad") return r15::pad_flat(r, c.a[1], -7);
    if (op == "compress") return r15::compress(r, c.a[1], c.a[2][0]);
    if (op == "bto") return r15::broadcast_to(r, c.a[1]);
    if (op == "add") return r15::add(r, second());
    if (op == "barr") { auto bs = ref::broadcast_shapes({s, c.a[1]}); if (!bs) return std::nullopt; return ref::broadcast_to(r, *bs); }   // (first member; the second is checked in execute)
    if (op == "matmul") return ref::matmul(r, second());
    if (op == "dot") return ref::dot(r, second());
    if (op == "tdn") return r15::tensordot_n(r, second(), c.a[2][0]);
    if (op == "tdx") return r15::tensordot_x(r, second(), c.a[2], c.a[3]);
    nmc::die("model_of: unknown op");
}
// NumPy 2.4 treats ANY single negative entry of a reshape target as the unknown dimension ((6,) -> (-2,3) gives (2,3)) although
// only -1 is documented; the documented rule (and the property text: "negative extent" is invalid) says raise.  For exactly
// these cases both answers are accepted: Nothing (model_of) or the value NumPy 2.4 actually returns (alt_model_of).
static ROpt alt_model_of(const Case& c) {
    if (c.op != "reshape") return std::nullopt;
    L dst = c.a[1]; long neg = 0, other = 0; for (auto& v : dst) if (v < 0) { neg++; if (v != -1) { other++; v = -1; } }
    if (neg != 1 || other != 1) return std::nullopt;
    return r15::reshape(RArr::iota(c.a[0]), dst);
}
static bool nontrivial_of(const Case& c, const ROpt& want) {
    if (!want) return true;
    if (want->size() == 0) return false;
    RArr r = RArr::iota(c.a[0]);
    return want->shape != r.shape || want->data != r.data;
}

#ifndef C15_REFDUMP
// ------------------------------------------------------------------------------------------------ oracle
static ROpt g_alt;   // second acceptable answer of the case in flight (see alt_model_of)
static Outcome judge15(const Obs& got, const ROpt& want, bool nontriv) {
    if (g_alt && !want && got.has && !got.bad_shape && nmc::diff(got, g_alt).empty()) return Outcome::ok(false, got.hash());
    if (want && want->size() == 0) {   // NumPy returns an empty array: outside nmtools' domain - Nothing or the exact empty shape are fine
        if (got.bad_shape) return Outcome::bad("wrong", "empty-result: absurd shape " + nmc::str(got.shape), false, got.hash());
        if (!got.has || got.shape == want->shape) return Outcome::ok(false, got.hash());
        return Outcome::bad("wrong", "empty-result: NumPy returns an empty array of shape " + nmc::str(want->shape) + ", got " + got.str(), false, got.hash());
    }
    return judge(got, want, nontriv);
}
template <typename V, typename A> static Outcome both(const V& lazy, const A& eager, const ROpt& want, bool nontriv) {
    Obs ol = nmc::observe(lazy);
    Outcome o = judge15(ol, want, nontriv);
    if (!o.fail.empty()) { o.fail = "view: " + o.fail; return o; }
    Obs oe = nmc::observe(eager);
    Outcome e = judge15(oe, want, nontriv);
    if (!e.fail.empty()) { e.fail = "array: " + e.fail; return e; }
    std::string sm = same(ol, oe, "view vs array"); if (!sm.empty()) return Outcome::bad("wrong", sm, nontriv, ol.hash());
    return o;
}
template <typename V> static Outcome both_eval(const V& lazy, const ROpt& want, bool nontriv) { return both(lazy, na::eval(lazy), want, nontriv); }

Outcome nmc_execute(const Case& c) {
    const std::string& op = c.op; const L& s = c.a[0];
    ROpt want = model_of(c); bool nt = nontrivial_of(c, want);
    g_alt = alt_model_of(c);
    nmc::count(!want ? "numpy_raises" : (want->size() == 0 ? "numpy_empty" : "numpy_value"));
    auto a = make_arr<long>(s);
    auto I = [&](size_t k) { return (int)c.a[k][0]; };
#ifdef C15_REARR
    if (op == "reshape") { auto d = to_il(c.a[1]); return both(view::reshape(a, d), na::reshape(a, d), want, nt); }
    if (op == "transpose") { auto p = to_il(c.a[1]); return both(view::transpose(a, p), na::transpose(a, p), want, nt); }
    if (op == "moveaxis1") { int x = I(1), y = I(2); return both(view::moveaxis(a, x, y), na::moveaxis(a, x, y), want, nt); }
    if (op == "moveaxis") { auto x = to_il(c.a[1]), y = to_il(c.a[2]); return both(view::moveaxis(a, x, y), na::moveaxis(a, x, y), want, nt); }
    if (op == "swapaxes") { int x = I(1), y = I(2); return both(view::swapaxes(a, x, y), na::swapaxes(a, x, y), want, nt); }
    if (op == "expand_dims1") { int x = I(1); return both(view::expand_dims(a, x), na::expand_dims(a, x), want, nt); }
    if (op == "expand_dims") { auto x = to_il(c.a[1]); return both(view::expand_dims(a, x), na::expand_dims(a, x), want, nt); }
    if (op == "flip1") { int x = I(1); return both(view::flip(a, x), na::flip(a, x), want, nt); }
    if (op == "flip") { auto x = to_il(c.a[1]); return both(view::flip(a, x), na::flip(a, x), want, nt); }
    if (op == "resize") { auto d = to_il(c.a[1]); return both(view::resize(a, d), na::resize(a, d), want, nt); }
#endif
#ifdef C15_REDUCE
    if (op == "sum1") { int x = I(1); if (I(2)) return both(view::sum(a, x, nm::None, nm::None, nm::True), na::sum(a, x, nm::None, nm::None, nm::True), want, nt); return both(view::sum(a, x), na::sum(a, x), want, nt); }
    if (op == "sum") { auto x = to_il(c.a[1]); if (I(2)) return both(view::sum(a, x, nm::None, nm::None, nm::True), na::sum(a, x, nm::None, nm::None, nm::True), want, nt); return both(view::sum(a, x), na::sum(a, x), want, nt); }
    if (op == "cumsum") { int x = I(1); return both_eval(view::cumsum(a, x), want, nt); }
#endif
#ifdef C15_SELECT
    if (op == "concat") { auto b = make_arr<long>(c.a[1], 101); int x = I(2); return both(view::concatenate(a, b, x), na::concatenate(a, b, x), want, nt); }
    if (op == "take") { auto ind = to_il(c.a[1]); int x = I(2); return both(view::take(a, ind, x), na::take(a, ind, x), want, nt); }
    if (op == "roll1") { int sh = I(1), x = I(2); return both(view::roll(a, sh, x), na::roll(a, sh, x), want, nt); }
    if (op == "rolls") { int sh = I(1); auto x = to_il(c.a[2]); return both(view::roll(a, sh, x), na::roll(a, sh, x), want, nt); }
    if (op == "roll") { auto sh = to_il(c.a[1]), x = to_il(c.a[2]); return both(view::roll(a, sh, x), na::roll(a, sh, x), want, nt); }
    if (op == "repeat") { int k = I(1), x = I(2); return both(view::repeat(a, k, x), na::repeat(a, k, x), want, nt); }
    if (op == "repeatl") { auto k = to_il(c.a[1]); int x = I(2); return both(view::repeat(a, k, x), na::repeat(a, k, x), want, nt); }
    if (op == "repeat_none") { int k = I(1); return both(view::repeat(a, k, nm::None), na::repeat(a, k, nm::None), want, nt); }
    if (op == "tile") { auto reps = to_il(c.a[1]); return both(view::tile(a, reps), na::tile(a, reps), want, nt); }
    if (op == "pad") { auto pw = to_il(c.a[1]); return both(view::pad(a, pw, (long)-7), na::pad(a, pw, (long)-7), want, nt); }
    if (op == "compress") { nmtools_list<bool> m; for (long v : c.a[1]) m.push_back(v != 0); int x = I(2); return both(view::compress(m, a, x), na::compress(m, a, x), want, nt); }
#endif
#ifdef C15_STACK
    if (op == "stack") { auto b = make_arr<long>(c.a[1], 101); int x = I(2); return both(view::stack(a, b, x), na::stack(a, b, x), want, nt); }
#endif
#ifdef C15_BCAST
    if (op == "bto") { auto d = to_il(c.a[1]); return both(view::broadcast_to(a, d), na::broadcast_to(a, d), want, nt); }
    if (op == "add") { auto b = make_arr<long>(c.a[1], 101); return both(view::add(a, b), na::add(a, b), want, nt); }
    if (op == "barr") {
        auto b = make_arr<long>(c.a[1], 101); RArr rb = RArr::iota(c.a[1], 101);
        ROpt wb; if (want) wb = ref::broadcast_to(rb, want->shape);
        const auto res = view::broadcast_arrays(a, b);
        auto pair = [&](const auto& tup) -> Outcome {
            Outcome o1 = judge15(nmc::observe(nm::get<0>(tup)), want, nt); if (!o1.fail.empty()) { o1.fail = "first: " + o1.fail; return o1; }
            Outcome o2 = judge15(nmc::observe(nm::get<1>(tup)), wb, nt); if (!o2.fail.empty()) { o2.fail = "second: " + o2.fail; return o2; }
            o1.outcome ^= nmc::mix(o2.outcome); return o1;
        };
        if constexpr (meta::is_maybe_v<meta::remove_cvref_t<decltype(res)>>) {
            if (!nm::has_value(res)) { if (!want) return Outcome::ok(true, 17); return Outcome::bad("rejects-valid", "broadcast_arrays reported Nothing, expected shape " + nmc::str(want->shape)); }
            return pair(*res);
        } else return pair(res);
    }
#endif
#ifdef C15_LINALG
    if (op == "matmul") { auto b = make_arr<long>(c.a[1], 101); return both(view::matmul(a, b), na::matmul(a, b), want, nt); }
    if (op == "dot") { auto b = make_arr<long>(c.a[1], 101); return both(view::dot(a, b), na::dot(a, b), want, nt); }
    if (op == "tdn") { auto b = make_arr<long>(c.a[1], 101); int n = I(2); return both(view::tensordot(a, b, n), na::tensordot(a, b, n), want, nt); }
    if (op == "tdx") { auto b = make_arr<long>(c.a[1], 101); auto ax = nmtools_tuple{to_il(c.a[2]), to_il(c.a[3])}; return both(view::tensordot(a, b, ax), na::tensordot(a, b, ax), want, nt); }
#endif
    nmc::die("unknown op (or unit not compiled in)");
}
#endif // !C15_REFDUMP

// ------------------------------------------------------------------------------------------------ oracle self test
void nmc_selftest() {
    RArr r = RArr::iota(L{2, 3});
    // validity predicates on the known-bad arguments of the brief
    if (r15::reshape(r, L{0, -1})) nmc::die("selftest: model accepts reshape (2,3)->(0,-1)");
    if (r15::reshape(r, L{-2, -3})) nmc::die("selftest: model accepts reshape (2,3)->(-2,-3)");
    if (r15::reshape(r, L{-1, -1})) nmc::die("selftest: model accepts two -1");
    if (!r15::reshape(r, L{3, -1})) nmc::die("selftest: model rejects reshape (2,3)->(3,-1)");
    if (r15::sum(r, L{5}, false) || r15::sum(r, L{0, 3}, false) || r15::sum(r, L{0, 0}, false)) nmc::die("selftest: model accepts sum with bad axes");
    if (r15::transpose(r, L{0, 2}) || r15::transpose(r, L{0, 0}) || r15::transpose(r, L{0})) nmc::die("selftest: model accepts a non-permutation");
    if (r15::flip(r, L{4}) || r15::flip(r, L{1, -1})) nmc::die("selftest: model accepts flip with a bad axis");
    if (r15::tile(r, L{-1}) || r15::repeat(r, L{-1}, 0) || r15::pad_flat(r, L{0, 0, 0}, 0) || r15::pad_flat(r, L{-1, 0, 0, 0}, 0)) nmc::die("selftest: model accepts negative counts / widths");
    ROpt e = r15::tile(r, L{0}); if (!e || e->size() != 0 || e->shape != L{2, 0}) nmc::die("selftest: tile by 0 must be the empty (2,0) array");
    if (r15::add(r, RArr::iota(L{2}))) nmc::die("selftest: model broadcasts (2,3)+(2)");
    ROpt rl = r15::roll(r, L{1}, true, L{0, 0}); if (!rl || rl->data != r.data) nmc::die("selftest: roll by 1 twice along an axis of length 2");
    if (r15::roll(r, L{1, 2, 3}, false, L{0, 1})) nmc::die("selftest: roll model broadcasts 3 shifts against 2 axes");
    ROpt t0 = r15::tensordot_n(r, RArr::iota(L{3, 2}), -1); if (!t0 || t0->shape != L{2, 3, 3, 2}) nmc::die("selftest: tensordot n=-1 is the outer product");
#ifndef C15_REFDUMP
    // canned bugs: the oracle must flag (1) an accepted invalid argument, (2) a spurious Nothing, (3) garbage of the right shape,
    // (4) a non-empty value where NumPy's result is empty; and must accept Nothing for an empty NumPy result
    Obs none; none.has = false;
    ROpt bad = r15::transpose(r, L{0, 0});
    Obs garbage; garbage.shape = {2, 2}; garbage.data = {1, 4, 1, 4};
    if (judge15(garbage, bad, true).fail.empty() || std::string(judge15(garbage, bad, true).kind) != "accepts-invalid") nmc::die("selftest: oracle blind to an accepted invalid argument");
    if (!judge15(none, bad, true).fail.empty()) nmc::die("selftest: oracle rejects Nothing for an invalid argument");
    ROpt ok = r15::transpose(r, L{1, 0});
    if (judge15(none, ok, true).fail.empty() || std::string(judge15(none, ok, true).kind) != "rejects-valid") nmc::die("selftest: oracle blind to a spurious Nothing");
    Obs id; id.shape = {3, 2}; id.data = {1, 2, 3, 4, 5, 6};
    if (judge15(id, ok, true).fail.empty()) nmc::die("selftest: oracle blind to wrong element order");
    if (judge15(r.obs(), e, false).fail.empty()) nmc::die("selftest: oracle blind to a non-empty value for an empty result");
    if (!judge15(none, e, false).fail.empty()) nmc::die("selftest: oracle must accept Nothing for an empty result");
#endif
}

#ifdef C15_REFDUMP
// ------------------------------------------------------------------------------------------------ NumPy audit
// usage:  g++ -std=c++17 -O1 -DC15_REFDUMP -I/verif/engine harness/c15_invalid.cpp -o refdump
//         ./refdump --script > audit.py ; ./refdump thorough | python3-vt audit.py      (prints "audited N mismatches 0")
static const char* AUDIT_SCRIPT = R"PY(
import sys, numpy as np
def L(f): return [] if f == '_' else [int(x) for x in f.split(',')]
def arr(s, base=1): return np.arange(base, base + int(np.prod(s)), dtype=np.int64).reshape(s)
def resize_nearest(a, dst):
    if len(dst) != a.ndim or any(v <= 0 for v in dst): raise ValueError
    out = np.empty(dst, dtype=a.dtype)
    for i in np.ndindex(*dst): out[i] = a[tuple((a.shape[k] * i[k]) // dst[k] for k in range(a.ndim))]
    return out
def pad_flat(a, pw):
    d = a.ndim
    if len(pw) != 2 * d: raise ValueError
    return np.pad(a, tuple(zip(pw[:d], pw[d:])), constant_values=-7)
def run(op, f):
    a = arr(L(f[0]))
    if op == 'reshape': return np.reshape(a, L(f[1]))
    if op == 'transpose': return np.transpose(a, L(f[1]))
    if op == 'moveaxis1': return np.moveaxis(a, L(f[1])[0], L(f[2])[0])
    if op == 'moveaxis': return np.moveaxis(a, L(f[1]), L(f[2]))
    if op == 'swapaxes': return np.swapaxes(a, L(f[1])[0], L(f[2])[0])
    if op == 'expand_dims1': return np.expand_dims(a, L(f[1])[0])
    if op == 'expand_dims': return np.expand_dims(a, tuple(L(f[1])))
    if op == 'flip1': return np.flip(a, L(f[1])[0])
    if op == 'flip': return np.flip(a, tuple(L(f[1])))
    if op == 'resize': return resize_nearest(a, L(f[1]))
    if op == 'sum1': return np.sum(a, axis=L(f[1])[0], keepdims=bool(L(f[2])[0]))
    if op == 'sum': return np.sum(a, axis=tuple(L(f[1])), keepdims=bool(L(f[2])[0]))
    if op == 'cumsum': return np.cumsum(a, axis=L(f[1])[0])
    if op == 'concat': return np.concatenate((a, arr(L(f[1]), 101)), axis=L(f[2])[0])
    if op == 'stack': return np.stack((a, arr(L(f[1]), 101)), axis=L(f[2])[0])
    if op == 'take': return np.take(a, L(f[1]), axis=L(f[2])[0])
    if op == 'roll1': return np.roll(a, L(f[1])[0], axis=L(f[2])[0])
    if op == 'rolls': return np.roll(a, L(f[1])[0], axis=tuple(L(f[2])))
    if op == 'roll': return np.roll(a, tuple(L(f[1])), axis=tuple(L(f[2])))
    if op == 'repeat': return np.repeat(a, L(f[1])[0], axis=L(f[2])[0])
    if op == 'repeatl': return np.repeat(a, L(f[1]), axis=L(f[2])[0])
    if op == 'repeat_none': return np.repeat(a, L(f[1])[0])
    if op == 'tile': return np.tile(a, tuple(L(f[1])))
    if op == 'pad': return pad_flat(a, L(f[1]))
    if op == 'compress': return np.compress([bool(v) for v in L(f[1])], a, axis=L(f[2])[0])
    if op == 'bto': return np.broadcast_to(a, tuple(L(f[1])))
    if op == 'add': return np.add(a, arr(L(f[1]), 101))
    if op == 'barr': return np.broadcast_arrays(a, arr(L(f[1]), 101))[0]
    if op == 'matmul': return np.matmul(a, arr(L(f[1]), 101))
    if op == 'dot': return np.dot(a, arr(L(f[1]), 101))
    if op == 'tdn': return np.tensordot(a, arr(L(f[1]), 101), axes=L(f[2])[0])
    if op == 'tdx': return np.tensordot(a, arr(L(f[1]), 101), axes=(L(f[2]), L(f[3])))
    raise SystemExit('unknown op ' + op)
n = bad = 0; per = {}
for line in sys.stdin:
    p = line.rstrip('\n').split('\t'); key = p[0]; f = key.split('|'); op = f[0]
    try: r = np.asarray(run(op, f[1:])); got = ','.join(map(str, r.shape)) or '_', ','.join(str(int(v)) for v in r.ravel())
    except SystemExit: raise
    except Exception as e: got = ('R',)
    want = tuple(p[1:])
    n += 1; c = per.setdefault(op, [0, 0, 0]); c[0] += 1; c[1] += got == ('R',)
    if got != want:
        bad += 1; c[2] += 1
        if c[2] <= 5: print('MISMATCH', key, 'model', want, 'numpy', got)
for op, c in per.items(): print('%-14s cases %7d numpy_raises %7d mismatches %d' % (op, c[0], c[1], c[2]))
print('audited', n, 'mismatches', bad)
)PY";
int main(int argc, char** argv) {
    if (argc > 1 && std::string(argv[1]) == "--script") { fputs(AUDIT_SCRIPT, stdout); return 0; }
    nmc_selftest();
    nmc::Tier t{argc > 1 ? argv[1] : "quick"};
    nmc_enumerate(t, [&](const Case& c) {
        ROpt w = model_of(c); std::string k = c.key();
        if (ROpt alt = alt_model_of(c)) w = alt;      // the audit compares with what NumPy 2.4 actually returns
        if (!w) { printf("%s\tR\n", k.c_str()); return; }
        std::string s; for (size_t i = 0; i < w->shape.size(); i++) { if (i) s += ","; s += std::to_string(w->shape[i]); }
        fputs(k.c_str(), stdout); fputc('\t', stdout); fputs(s.empty() ? "_" : s.c_str(), stdout); fputc('\t', stdout);
        for (size_t i = 0; i < w->data.size(); i++) printf(i ? ",%ld" : "%ld", (long)w->data[i]);
        fputc('\n', stdout);
    });
    return 0;
}
#endif
