// C07 (second oracle) - the SCALAR operation behind every activation and math ufunc equals its documented definition.
//
// c07_ufuncs.cpp checks the lifting (shape, broadcasting pairing, element type) and deliberately applies the library's own functor
// to the paired elements, so a change INSIDE a functor (seeded change m07b: softplus' linear shortcut taken for |beta*x| > threshold)
// is invisible there.  This unit closes that gap: for every function f of the list below, every value x of a fixed grid (for binary
// functions every pair of a smaller grid) and element types float and double it calls the real eager function on a one-element array
// (and the lazy view, which must agree bit for bit) and compares the element with f's definition evaluated in double
// (PyTorch's documented formula for the activations, <cmath> for the math ufuncs), with a tolerance that only allows for the
// rounding of the element type:  |got - ref| <= rtol*|ref| + atol*max(1,|x|)  (float 2e-5 / 1e-6, double 1e-9 / 1e-12).
// Grid: +-{0, 1e-3, 0.25, 0.5, 0.75, 1, 1.25, 1.5, 2.5, 3, 3.5, 6, 6.5, 10, 19.5, 20, 20.5, 25, 50} restricted to each function's
// domain (log: x > 0, arcsin: |x| <= 1, ...); the thresholds of every piecewise definition (0, lambda, +-3, 6, min/max, 20/beta) are
// on the grid together with a value on either side.  |x| <= 50 keeps exp() finite in float, where the naive formulas are meant to work.
// Non-trivial: every case (each one pins a distinct point of a definition).  Case: sc|fn|type|value-index[,second value-index].
#include "nmtools/array/ndarray.hpp"
#include "nmtools/array/array/activations/celu.hpp"
#include "nmtools/array/array/activations/elu.hpp"
#include "nmtools/array/array/activations/hardshrink.hpp"
#include "nmtools/array/array/activations/hardswish.hpp"
#include "nmtools/array/array/activations/hardtanh.hpp"
#include "nmtools/array/array/activations/leaky_relu.hpp"
#include "nmtools/array/array/activations/log_sigmoid.hpp"
#include "nmtools/array/array/activations/mish.hpp"
#include "nmtools/array/array/activations/prelu.hpp"
#include "nmtools/array/array/activations/relu.hpp"
#include "nmtools/array/array/activations/relu6.hpp"
#include "nmtools/array/array/activations/selu.hpp"
#include "nmtools/array/array/activations/sigmoid.hpp"
#include "nmtools/array/array/activations/silu.hpp"
#include "nmtools/array/array/activations/softplus.hpp"
#include "nmtools/array/array/activations/softshrink.hpp"
#include "nmtools/array/array/activations/softsign.hpp"
#include "nmtools/array/array/activations/tanhshrink.hpp"
#include "nmtools/array/array/ufuncs/sin.hpp"
#include "nmtools/array/array/ufuncs/cos.hpp"
#include "nmtools/array/array/ufuncs/tan.hpp"
#include "nmtools/array/array/ufuncs/arcsin.hpp"
#include "nmtools/array/array/ufuncs/arccos.hpp"
#include "nmtools/array/array/ufuncs/arctan.hpp"
#include "nmtools/array/array/ufuncs/sinh.hpp"
#include "nmtools/array/array/ufuncs/cosh.hpp"
#include "nmtools/array/array/ufuncs/tanh.hpp"
#include "nmtools/array/array/ufuncs/arcsinh.hpp"
#include "nmtools/array/array/ufuncs/arccosh.hpp"
#include "nmtools/array/array/ufuncs/arctanh.hpp"
#include "nmtools/array/array/ufuncs/exp.hpp"
#include "nmtools/array/array/ufuncs/exp2.hpp"
#include "nmtools/array/array/ufuncs/expm1.hpp"
#include "nmtools/array/array/ufuncs/log.hpp"
#include "nmtools/array/array/ufuncs/log2.hpp"
#include "nmtools/array/array/ufuncs/log10.hpp"
#include "nmtools/array/array/ufuncs/log1p.hpp"
#include "nmtools/array/array/ufuncs/sqrt.hpp"
#include "nmtools/array/array/ufuncs/cbrt.hpp"
#include "nmtools/array/array/ufuncs/fabs.hpp"
#include "nmtools/array/array/ufuncs/ceil.hpp"
#include "nmtools/array/array/ufuncs/floor.hpp"
#include "nmtools/array/array/ufuncs/trunc.hpp"
#include "nmtools/array/array/ufuncs/rint.hpp"
#include "nmtools/array/array/ufuncs/square.hpp"
#include "nmtools/array/array/ufuncs/reciprocal.hpp"
#include "nmtools/array/array/ufuncs/negative.hpp"
#include "nmtools/array/array/ufuncs/power.hpp"
#include "nmtools/array/array/ufuncs/hypot.hpp"
#include "nmtools/array/array/ufuncs/arctan2.hpp"
#include "nmtools/array/array/ufuncs/fmod.hpp"
#include "nmtools/array/array/ufuncs/fmax.hpp"
#include "nmtools/array/array/ufuncs/fmin.hpp"
#include "nmtools/array/array/ufuncs/maximum.hpp"
#include "nmtools/array/array/ufuncs/minimum.hpp"
#include "nmtools/array/array/ufuncs/add.hpp"
#include "nmtools/array/array/ufuncs/subtract.hpp"
#include "nmtools/array/array/ufuncs/multiply.hpp"
#include "nmtools/array/array/ufuncs/divide.hpp"
#include "nmtools/array/array/ufuncs/mod.hpp"
#include "nmtools/array/array/ufuncs/bitwise_and.hpp"
#include "nmtools/array/array/ufuncs/bitwise_or.hpp"
#include "nmtools/array/array/ufuncs/bitwise_xor.hpp"
#include "nmtools/array/array/ufuncs/left_shift.hpp"
#include "nmtools/array/array/ufuncs/right_shift.hpp"
#include "nmtools/array/array/ufuncs/invert.hpp"
#include "nmtools/array/array/ufuncs/equal.hpp"
#include "nmtools/array/array/ufuncs/not_equal.hpp"
#include "nmtools/array/array/ufuncs/less.hpp"
#include "nmtools/array/array/ufuncs/less_equal.hpp"
#include "nmtools/array/array/ufuncs/greater.hpp"
#include "nmtools/array/array/ufuncs/greater_equal.hpp"
#include "nmtools/array/array/ufuncs/logical_and.hpp"
#include "nmtools/array/array/ufuncs/logical_or.hpp"
#include "nmtools/array/array/ufuncs/logical_xor.hpp"
#include "nmtools/array/array/ufuncs/logical_not.hpp"
#include "nmtools/array/array/ufuncs/positive.hpp"
#include "nmtools/array/array/ufuncs/signbit.hpp"
#include "nmtools/array/array/ufuncs/isnan.hpp"
#include "nmtools/array/array/ufuncs/isinf.hpp"
#include "nmtools/array/array/ufuncs/isfinite.hpp"
#define NMC_MAIN
#include "common.hpp"
#include <cmath>

const char* nmc_property() { return "C07"; }

static const std::vector<double>& grid() {
    static std::vector<double> g = [] {
        const double p[] = {0, 1e-3, 0.25, 0.5, 0.75, 1, 1.25, 1.5, 2.5, 3, 3.5, 6, 6.5, 10, 19.5, 20, 20.5, 25, 50};
        std::vector<double> v;
        for (int i = (int)(sizeof p / sizeof *p) - 1; i > 0; i--) v.push_back(-p[i]);
        for (double x : p) v.push_back(x);
        return v;
    }();
    return g;
}
static const std::vector<double>& grid2() { static std::vector<double> g = {-20.5, -3, -1.5, -1, -0.5, 0, 0.5, 1, 2, 2.5, 3, 7, 20.5}; return g; }

enum Dom { ANY, POS, NONNEG, UNIT, UNIT_OPEN, GE1, GTM1, NZ, LE20 };
static bool in_dom(Dom d, double x) {
    switch (d) {
    case POS: return x > 0; case NONNEG: return x >= 0; case UNIT: return x >= -1 && x <= 1; case UNIT_OPEN: return x > -1 && x < 1;
    case GE1: return x >= 1; case GTM1: return x > -1; case NZ: return x != 0; case LE20: return std::fabs(x) <= 20.5; default: return true;
    }
}
static double sigm(double x) { return 1.0 / (1.0 + std::exp(-x)); }
static double splus(double x, double beta, double thr) { return beta * x > thr ? x : std::log1p(std::exp(beta * x)) / beta; }

// ---- the list of unary functions: name, domain, definition (double), the real call --------------------------------------------
template <typename T> struct Unary { const char* name; Dom dom; double (*ref)(double); nmc::Obs (*eager)(const dyn_t<T>&); nmc::Obs (*lazy)(const dyn_t<T>&); };
#define UNARY_LIST(T) \
    U_(celu, ANY, (std::max(0.0, x) + std::min(0.0, 1.0 * (std::exp(x / 1.0) - 1))), celu(a)) \
    U_(celu_p, ANY, (std::max(0.0, x) + std::min(0.0, 0.5 * (std::exp(x / 0.5) - 1))), celu(a, (T)0.5)) \
    U_(elu, ANY, (x > 0 ? x : 1.0 * (std::exp(x) - 1)), elu(a)) \
    U_(elu_p, ANY, (x > 0 ? x : 1.5 * (std::exp(x) - 1)), elu(a, (T)1.5)) \
    U_(hardshrink, ANY, (std::fabs(x) > 0.5 ? x : 0.0), hardshrink(a)) \
    U_(hardshrink_p, ANY, (std::fabs(x) > 1.25 ? x : 0.0), hardshrink(a, (T)1.25)) \
    U_(hardswish, ANY, (x <= -3 ? 0.0 : x >= 3 ? x : x * (x + 3) / 6), hardswish(a)) \
    U_(hardtanh, ANY, (x < -1 ? -1.0 : x > 1 ? 1.0 : x), hardtanh(a)) \
    U_(hardtanh_p, ANY, (x < -2.5 ? -2.5 : x > 0.75 ? 0.75 : x), hardtanh(a, (T)-2.5, (T)0.75)) \
    U_(leaky_relu, ANY, (x >= 0 ? x : (double)0.01f * x), leaky_relu(a)) /* the default slope is declared as float{0.01}: that parameter value is part of the API, not a rounding of the operation */ \
    U_(leaky_relu_p, ANY, (x >= 0 ? x : 0.2 * x), leaky_relu(a, (T)0.2)) \
    U_(log_sigmoid, ANY, (-splus(-x, 1, 1e300)), log_sigmoid(a)) \
    U_(mish, ANY, (x * std::tanh(splus(x, 1, 20))), mish(a)) \
    U_(prelu, ANY, (x >= 0 ? x : 0.25 * x), prelu(a)) \
    U_(prelu_p, ANY, (x >= 0 ? x : 0.75 * x), prelu(a, (T)0.75)) \
    U_(relu, ANY, (x > 0 ? x : 0.0), relu(a)) \
    U_(relu6, ANY, (x < 0 ? 0.0 : x > 6 ? 6.0 : x), relu6(a)) \
    U_(selu, ANY, (1.0507009873554804934193349852946 * (std::max(0.0, x) + std::min(0.0, 1.6732632423543772848170429916717 * (std::exp(x) - 1)))), selu(a)) \
    U_(sigmoid, ANY, sigm(x), sigmoid(a)) \
    U_(silu, ANY, (x * sigm(x)), silu(a)) \
    U_(softplus, ANY, splus(x, 1, 20), softplus(a)) \
    U_(softplus_p, ANY, splus(x, 2, 3), softplus(a, (T)2, (T)3)) \
    U_(softshrink, ANY, (x > 0.5 ? x - 0.5 : x < -0.5 ? x + 0.5 : 0.0), softshrink(a)) \
    U_(softshrink_p, ANY, (x > 1.25 ? x - 1.25 : x < -1.25 ? x + 1.25 : 0.0), softshrink(a, (T)1.25)) \
    U_(softsign, ANY, (x / (1 + std::fabs(x))), softsign(a)) \
    U_(tanhshrink, ANY, (x - std::tanh(x)), tanhshrink(a)) \
    U_(sin, ANY, std::sin(x), sin(a)) U_(cos, ANY, std::cos(x), cos(a)) U_(tan, LE20, std::tan(x), tan(a)) \
    U_(arcsin, UNIT, std::asin(x), arcsin(a)) U_(arccos, UNIT, std::acos(x), arccos(a)) U_(arctan, ANY, std::atan(x), arctan(a)) \
    U_(sinh, ANY, std::sinh(x), sinh(a)) U_(cosh, ANY, std::cosh(x), cosh(a)) U_(tanh, ANY, std::tanh(x), tanh(a)) \
    U_(arcsinh, ANY, std::asinh(x), arcsinh(a)) U_(arccosh, GE1, std::acosh(x), arccosh(a)) U_(arctanh, UNIT_OPEN, std::atanh(x), arctanh(a)) \
    U_(exp, ANY, std::exp(x), exp(a)) U_(exp2, ANY, std::exp2(x), exp2(a)) U_(expm1, ANY, std::expm1(x), expm1(a)) \
    U_(log, POS, std::log(x), log(a)) U_(log2, POS, std::log2(x), log2(a)) U_(log10, POS, std::log10(x), log10(a)) U_(log1p, GTM1, std::log1p(x), log1p(a)) \
    U_(sqrt, NONNEG, std::sqrt(x), sqrt(a)) U_(cbrt, ANY, std::cbrt(x), cbrt(a)) U_(fabs, ANY, std::fabs(x), fabs(a)) \
    U_(ceil, ANY, std::ceil(x), ceil(a)) U_(floor, ANY, std::floor(x), floor(a)) U_(trunc, ANY, std::trunc(x), trunc(a)) U_(rint, ANY, std::rint(x), rint(a)) \
    U_(square, ANY, (x * x), square(a)) U_(reciprocal, NZ, (1 / x), reciprocal(a)) U_(negative, ANY, (-x), negative(a))

template <typename T> static const std::vector<Unary<T>>& unaries() {
    static const std::vector<Unary<T>> v = {
#define U_(NAME, DOM, REF, CALL) {#NAME, DOM, [](double x) -> double { return REF; }, [](const dyn_t<T>& a) { return nmc::observe(na::CALL); }, [](const dyn_t<T>& a) { const auto v = view::CALL; return nmc::observe(v); }},
        UNARY_LIST(T)
#undef U_
    };
    return v;
}
// ---- binary functions -----------------------------------------------------------------------------------------------------------
template <typename T> struct Binary { const char* name; Dom da, db; double (*ref)(double, double); nmc::Obs (*eager)(const dyn_t<T>&, const dyn_t<T>&); nmc::Obs (*lazy)(const dyn_t<T>&, const dyn_t<T>&); };
#define BINARY_LIST \
    B_(add, ANY, ANY, (x + y)) B_(subtract, ANY, ANY, (x - y)) B_(multiply, ANY, ANY, (x * y)) B_(divide, ANY, NZ, (x / y)) \
    B_(power, POS, ANY, std::pow(x, y)) B_(hypot, ANY, ANY, std::hypot(x, y)) B_(arctan2, ANY, ANY, std::atan2(x, y)) B_(fmod, ANY, NZ, std::fmod(x, y)) \
    B_(fmax, ANY, ANY, std::fmax(x, y)) B_(fmin, ANY, ANY, std::fmin(x, y)) B_(maximum, ANY, ANY, (x > y ? x : y)) B_(minimum, ANY, ANY, (x < y ? x : y))
template <typename T> static const std::vector<Binary<T>>& binaries() {
    static const std::vector<Binary<T>> v = {
#define B_(NAME, DA, DB, REF) {#NAME, DA, DB, [](double x, double y) -> double { return REF; }, [](const dyn_t<T>& a, const dyn_t<T>& b) { return nmc::observe(na::NAME(a, b)); }, [](const dyn_t<T>& a, const dyn_t<T>& b) { const auto v = view::NAME(a, b); return nmc::observe(v); }},
        BINARY_LIST
#undef B_
    };
    return v;
}

// ---- integer / comparison / logical functions: the C++ operator on the promoted operands (what the property calls "the scalar
// operation ... in the element type it yields"), exact.  Types: 0 = int32, 1 = uint8 (promotes to int), 2 = int64.
static const std::vector<long>& igrid(long ty) {
    static const std::vector<long> s = {-9, -7, -3, -2, -1, 0, 1, 2, 3, 5, 8, 100}, u = {0, 1, 2, 3, 5, 8, 100, 200, 255}, l = {-5000000000L, -7, -1, 0, 1, 3, 8, 5000000000L};
    return ty == 0 ? s : ty == 1 ? u : l;
}
enum IDom { I_ANY, I_NZ, I_SHIFT };
static bool in_idom(IDom d, long v) { return d == I_ANY || (d == I_NZ && v != 0) || (d == I_SHIFT && v >= 0 && v <= 8); }
template <typename T> struct IBinary { const char* name; IDom da, db; long (*ref)(long, long); nmc::Obs (*eager)(const dyn_t<T>&, const dyn_t<T>&); nmc::Obs (*lazy)(const dyn_t<T>&, const dyn_t<T>&); };
#define IBINARY_LIST \
    I_(add, I_ANY, I_ANY, (x + y)) I_(subtract, I_ANY, I_ANY, (x - y)) I_(multiply, I_ANY, I_ANY, (x * y)) I_(divide, I_ANY, I_NZ, (x / y)) I_(mod, I_ANY, I_NZ, (x % y)) \
    I_(bitwise_and, I_ANY, I_ANY, (x & y)) I_(bitwise_or, I_ANY, I_ANY, (x | y)) I_(bitwise_xor, I_ANY, I_ANY, (x ^ y)) \
    I_(left_shift, I_SHIFT, I_SHIFT, (x << y)) I_(right_shift, I_ANY, I_SHIFT, (x >> y)) \
    I_(equal, I_ANY, I_ANY, (x == y)) I_(not_equal, I_ANY, I_ANY, (x != y)) I_(less, I_ANY, I_ANY, (x < y)) I_(less_equal, I_ANY, I_ANY, (x <= y)) \
    I_(greater, I_ANY, I_ANY, (x > y)) I_(greater_equal, I_ANY, I_ANY, (x >= y)) \
    I_(logical_and, I_ANY, I_ANY, ((x != 0) && (y != 0))) I_(logical_or, I_ANY, I_ANY, ((x != 0) || (y != 0))) I_(logical_xor, I_ANY, I_ANY, ((x != 0) != (y != 0))) \
    I_(maximum, I_ANY, I_ANY, (x > y ? x : y)) I_(minimum, I_ANY, I_ANY, (x < y ? x : y))
template <typename T> static const std::vector<IBinary<T>>& ibinaries() {
    static const std::vector<IBinary<T>> v = {
#define I_(NAME, DA, DB, REF) {#NAME, DA, DB, [](long x, long y) -> long { return REF; }, [](const dyn_t<T>& a, const dyn_t<T>& b) { return nmc::observe(na::NAME(a, b)); }, [](const dyn_t<T>& a, const dyn_t<T>& b) { const auto v = view::NAME(a, b); return nmc::observe(v); }},
        IBINARY_LIST
#undef I_
    };
    return v;
}
template <typename T> struct IUnary { const char* name; long (*ref)(long); nmc::Obs (*eager)(const dyn_t<T>&); nmc::Obs (*lazy)(const dyn_t<T>&); };
#define IUNARY_LIST J_(negative, (-x)) J_(positive, (+x)) J_(square, (x * x)) J_(invert, (~x)) J_(logical_not, (!x)) J_(signbit, (x < 0)) J_(isnan, 0) J_(isinf, 0) J_(isfinite, 1)
template <typename T> static const std::vector<IUnary<T>>& iunaries() {
    static const std::vector<IUnary<T>> v = {
#define J_(NAME, REF) {#NAME, [](long x) -> long { (void)x; return REF; }, [](const dyn_t<T>& a) { return nmc::observe(na::NAME(a)); }, [](const dyn_t<T>& a) { const auto v = view::NAME(a); return nmc::observe(v); }},
        IUNARY_LIST
#undef J_
    };
    return v;
}
// float predicates on special values: 0 nan, 1 +inf, 2 -inf, 3 -0.0, 4 1.5, 5 -1.5, 6 the largest finite value
static double special(long i, bool is_float) { switch (i) { case 0: return std::nan(""); case 1: return INFINITY; case 2: return -INFINITY; case 3: return -0.0; case 4: return 1.5; case 5: return -1.5; default: return is_float ? (double)std::numeric_limits<float>::max() : std::numeric_limits<double>::max(); } }
template <typename T> struct FPred { const char* name; bool (*ref)(double); nmc::Obs (*eager)(const dyn_t<T>&); nmc::Obs (*lazy)(const dyn_t<T>&); };
template <typename T> static const std::vector<FPred<T>>& fpreds() {
    static const std::vector<FPred<T>> v = {
#define P_(NAME, REF) {#NAME, [](double x) -> bool { return REF; }, [](const dyn_t<T>& a) { return nmc::observe(na::NAME(a)); }, [](const dyn_t<T>& a) { const auto v = view::NAME(a); return nmc::observe(v); }},
        P_(isnan, std::isnan(x)) P_(isinf, std::isinf(x)) P_(isfinite, std::isfinite(x)) P_(signbit, std::signbit(x))
#undef P_
    };
    return v;
}

void nmc_enumerate(const nmc::Tier&, const nmc::Sink& emit) {
    const auto& U = unaries<float>(); const auto& B = binaries<float>();
    for (long f = 0; f < (long)U.size(); f++) for (long ty = 0; ty < 2; ty++) for (long i = 0; i < (long)grid().size(); i++)
        if (in_dom(U[(size_t)f].dom, grid()[(size_t)i])) emit(Case("sc", {{f}, {ty}, {i}}));
    for (long f = 0; f < (long)B.size(); f++) for (long ty = 0; ty < 2; ty++) for (long i = 0; i < (long)grid2().size(); i++) for (long j = 0; j < (long)grid2().size(); j++)
        if (in_dom(B[(size_t)f].da, grid2()[(size_t)i]) && in_dom(B[(size_t)f].db, grid2()[(size_t)j])) emit(Case("sc2", {{f}, {ty}, {i, j}}));
    const auto& IB = ibinaries<int>(); const auto& IU = iunaries<int>();
    for (long f = 0; f < (long)IU.size(); f++) for (long ty = 0; ty < 3; ty++) for (long i = 0; i < (long)igrid(ty).size(); i++) {
        if (ty == 2 && std::string(IU[(size_t)f].name) == "square" && std::labs(igrid(ty)[(size_t)i]) > 3000000000L) continue;   // would overflow int64
        if (ty == 1 && std::string(IU[(size_t)f].name) == "signbit") continue;                                                   // not defined for unsigned operands
        emit(Case("si", {{f}, {ty}, {i}}));
    }
    for (long f = 0; f < (long)IB.size(); f++) for (long ty = 0; ty < 3; ty++) for (long i = 0; i < (long)igrid(ty).size(); i++) for (long j = 0; j < (long)igrid(ty).size(); j++) {
        long x = igrid(ty)[(size_t)i], y = igrid(ty)[(size_t)j];
        if (!in_idom(IB[(size_t)f].da, x) || !in_idom(IB[(size_t)f].db, y)) continue;
        if (ty == 2 && std::string(IB[(size_t)f].name) == "multiply" && std::labs(x) > 3000000000L && std::labs(y) > 3000000000L) continue;   // int64 overflow
        emit(Case("si2", {{f}, {ty}, {i, j}}));
    }
    for (long f = 0; f < 4; f++) for (long ty = 0; ty < 2; ty++) for (long i = 0; i < 7; i++) emit(Case("sp", {{f}, {ty}, {i}}));
}

template <typename T> static dyn_t<T> one(double x) { auto a = make_arr<T>(L{1}); a.data_[0] = (T)x; return a; }
static bool close_to(double got, double ref, double x, bool is_float) {
    if (std::isnan(ref) || std::isnan(got)) return std::isnan(ref) && std::isnan(got);
    if (std::isinf(ref) || std::isinf(got)) return ref == got;
    const double rtol = is_float ? 2e-5 : 1e-9, atol = is_float ? 1e-6 : 1e-12;
    return std::fabs(got - ref) <= rtol * std::fabs(ref) + atol * std::max(1.0, std::fabs(x));
}
static Outcome verdict(const char* name, const nmc::Obs& e, const nmc::Obs& l, double ref, double x, double y, bool is_float, bool binary) {
    char b0[96], buf[256];
    if (binary) snprintf(b0, sizeof b0, "%s(%g, %g)", name, x, y); else snprintf(b0, sizeof b0, "%s(%g)", name, x);
    const std::string arg = b0;
    if (!e.has || !l.has) return Outcome::bad("rejects-valid", arg + " returned Nothing");
    if (e.data.size() != 1 || l.data.size() != 1 || e.shape != L{1} || l.shape != L{1}) return Outcome::bad("wrong", arg + ": result is not one element of shape (1)");
    double ge = e.data[0], gl = l.data[0];
    uint64_t h = nmc::fnv(&ge, sizeof ge);
    if (!(ge == gl || (std::isnan(ge) && std::isnan(gl)))) { snprintf(buf, sizeof buf, ": eager %.17g != lazy %.17g", ge, gl); return Outcome::bad("wrong", arg + buf, true, h); }
    if (!close_to(ge, ref, std::max(std::fabs(x), binary ? std::fabs(y) : 0.0), is_float)) { snprintf(buf, sizeof buf, " = %.9g, the definition gives %.9g (%s)", ge, ref, is_float ? "float" : "double"); return Outcome::bad("wrong", arg + buf, true, h); }
    return Outcome::ok(true, h);
}
template <typename T> static Outcome run1(long f, long i) {
    const auto& u = unaries<T>()[(size_t)f];
    const double x = (double)(T)grid()[(size_t)i];
    const auto a = one<T>(x);
    return verdict(u.name, u.eager(a), u.lazy(a), u.ref(x), x, 0, std::is_same_v<T, float>, false);
}
template <typename T> static Outcome run2(long f, long i, long j) {
    const auto& b = binaries<T>()[(size_t)f];
    const double x = (double)(T)grid2()[(size_t)i], y = (double)(T)grid2()[(size_t)j];
    const auto a = one<T>(x), c = one<T>(y);
    return verdict(b.name, b.eager(a, c), b.lazy(a, c), b.ref(x, y), x, y, std::is_same_v<T, float>, true);
}
template <typename T> static dyn_t<T> ione(long x) { auto a = make_arr<T>(L{1}); a.data_[0] = (T)x; return a; }
static Outcome iverdict(const std::string& arg, const nmc::Obs& e, const nmc::Obs& l, double ref) {
    char buf[160];
    if (!e.has || !l.has) return Outcome::bad("rejects-valid", arg + " returned Nothing");
    if (e.data.size() != 1 || l.data.size() != 1 || e.shape != L{1} || l.shape != L{1}) return Outcome::bad("wrong", arg + ": result is not one element of shape (1)");
    double ge = e.data[0], gl = l.data[0];
    uint64_t h = nmc::fnv(&ge, sizeof ge);
    if (ge != gl) { snprintf(buf, sizeof buf, ": eager %.17g != lazy %.17g", ge, gl); return Outcome::bad("wrong", arg + buf, true, h); }
    if (ge != ref) { snprintf(buf, sizeof buf, " = %.17g, the C++ operator on the promoted operands gives %.17g", ge, ref); return Outcome::bad("wrong", arg + buf, true, h); }
    return Outcome::ok(true, h);
}
template <typename T> static Outcome irun1(long f, long ty, long i) {
    const auto& u = iunaries<T>()[(size_t)f];
    const long x = igrid(ty)[(size_t)i];
    using P = decltype(+std::declval<T>());                       // the promoted operand type
    const long r = u.ref(x);
    const std::string n = u.name;
    const double ref = (n == "negative" || n == "positive" || n == "square" || n == "invert") ? (double)(P)r : (double)r;
    const auto a = ione<T>(x);
    return iverdict(n + "(" + std::to_string(x) + ") [" + (ty == 0 ? "int32" : ty == 1 ? "uint8" : "int64") + "]", u.eager(a), u.lazy(a), ref);
}
template <typename T> static Outcome irun2(long f, long ty, long i, long j) {
    const auto& b = ibinaries<T>()[(size_t)f];
    const long x = igrid(ty)[(size_t)i], y = igrid(ty)[(size_t)j];
    using P = decltype(+std::declval<T>());
    const double ref = (double)(P)b.ref(x, y);
    const auto a = ione<T>(x), c = ione<T>(y);
    return iverdict(std::string(b.name) + "(" + std::to_string(x) + ", " + std::to_string(y) + ") [" + (ty == 0 ? "int32" : ty == 1 ? "uint8" : "int64") + "]", b.eager(a, c), b.lazy(a, c), ref);
}
template <typename T> static Outcome prun(long f, long i) {
    const auto& p = fpreds<T>()[(size_t)f];
    const double x = special(i, std::is_same_v<T, float>);
    auto a = make_arr<T>(L{1}); a.data_[0] = (T)x;
    char b0[64]; snprintf(b0, sizeof b0, "%s(%g) [%s]", p.name, x, std::is_same_v<T, float> ? "float" : "double");
    return iverdict(b0, p.eager(a), p.lazy(a), p.ref(x) ? 1.0 : 0.0);
}
Outcome nmc_execute(const Case& c) {
    long f = c.a[0][0], ty = c.a[1][0];
    if (c.op == "si") return ty == 0 ? irun1<int>(f, ty, c.a[2][0]) : ty == 1 ? irun1<uint8_t>(f, ty, c.a[2][0]) : irun1<long>(f, ty, c.a[2][0]);
    if (c.op == "si2") return ty == 0 ? irun2<int>(f, ty, c.a[2][0], c.a[2][1]) : ty == 1 ? irun2<uint8_t>(f, ty, c.a[2][0], c.a[2][1]) : irun2<long>(f, ty, c.a[2][0], c.a[2][1]);
    if (c.op == "sp") return ty == 0 ? prun<float>(f, c.a[2][0]) : prun<double>(f, c.a[2][0]);
    if (c.op == "sc") return ty == 0 ? run1<float>(f, c.a[2][0]) : run1<double>(f, c.a[2][0]);
    return ty == 0 ? run2<float>(f, c.a[2][0], c.a[2][1]) : run2<double>(f, c.a[2][0], c.a[2][1]);
}
void nmc_selftest() {
    // a wrong scalar value must be flagged, the right one accepted, for a small and a large magnitude
    if (close_to(-25.0, splus(-25, 1, 20), 25, true)) nmc::die("selftest: softplus(-25) = -25 accepted");
    if (!close_to((double)(float)splus(-25, 1, 20), splus(-25, 1, 20), 25, true)) nmc::die("selftest: the right value rejected");
    if (close_to(1.0001, 1.0, 1, false)) nmc::die("selftest: double tolerance too wide");
    nmc::Obs o; o.shape = {1}; o.data = {3.0};
    if (verdict("t", o, o, 2.0, 1, 0, false, false).fail.empty()) nmc::die("selftest: wrong element accepted");
}
